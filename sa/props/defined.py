"""Definite-definition rules (used by C05: "runs to completion without raising").

D-ATTR  every attribute read through `self` in a class of the simulation has a definition: a
        store `self.X = ...` in some method of the class, of a base or of a subclass, a class-body
        binding, a method/property, or a store `<obj>.X = ...` anywhere in the package.  An
        attribute nothing defines raises AttributeError the first time the read is reached.
D-INIT  an attribute that the constructor chain (`__init__` and the methods it calls on self,
        bases included) is the ONLY definer of must still be defined there -- this is D-ATTR; an
        attribute also stored elsewhere is "lazily defined" and not judged (no verdict without
        the order of method calls).
D-NAME  every name read in a function is bound: a parameter, a local that may have been assigned
        on some path to the read (structured may-assigned analysis, loops included), a name of an
        enclosing function, a module-level binding, or a builtin.  A local read where no
        assignment can have happened raises UnboundLocalError/NameError when reached.

All three are judged on the source as written (Module.orig_tree), for the functions that can be
reached from the simulation's entry points by name (over-approximate call graph).  Nothing is
executed.  The rules only report reads that raise on EVERY execution that reaches them."""
import ast
import builtins

LIVE_PREFIXES = ('topsim.core', 'topsim.algorithms', 'topsim.user')
# modules whose objects come from a library that is absent here, so the index's type guesses
# (made from parameter names) are not to be trusted there
SKIP_TYPED = {'topsim.user.plan.static_planning': 'SHADOWPlanning handles objects of the absent shadow library'}
ROOTS = ('Simulation.__init__', 'Simulation.start', 'Simulation.resume')


def _live(m):
    return m.name.startswith(LIVE_PREFIXES)


def _functions(tree):
    """(class node or None, function node) for module-level functions and methods"""
    for n in tree.body:
        if isinstance(n, (ast.FunctionDef, ast.AsyncFunctionDef)):
            yield None, n
        elif isinstance(n, ast.ClassDef):
            for b in n.body:
                if isinstance(b, (ast.FunctionDef, ast.AsyncFunctionDef)):
                    yield n, b
                elif isinstance(b, ast.ClassDef):
                    for bb in b.body:
                        if isinstance(bb, (ast.FunctionDef, ast.AsyncFunctionDef)):
                            yield b, bb


def reachable(repo):
    """names of functions/methods that can be reached from ROOTS: a function is reached when its
    name is mentioned (called, passed, read as an attribute) by a reached function or at module or
    class level.  Over-approximate on purpose."""
    by_name = {}
    mentions = {}
    top = set()
    for m in repo.modules.values():
        if not m.name.startswith('topsim'):
            continue
        for c, f in _functions(m.orig_tree):
            key = (m.name, c.name if c else None, f.name)
            by_name.setdefault(f.name, []).append(key)
            names = set()
            for x in ast.walk(f):
                if isinstance(x, ast.Attribute):
                    names.add(x.attr)
                elif isinstance(x, ast.Name):
                    names.add(x.id)
            mentions[key] = names
    seen = set()
    work = []
    for q in ROOTS:
        cn, mn = q.split('.')
        for k in by_name.get(mn, []):
            if k[1] == cn:
                work.append(k)
    # constructors and dunder methods are reached with their class
    while work:
        k = work.pop()
        if k in seen:
            continue
        seen.add(k)
        for nm in mentions[k]:
            for k2 in by_name.get(nm, []):
                if k2 not in seen:
                    work.append(k2)
            # mentioning a class reaches its dunder methods
            for k2 in [kk for kk in mentions if kk[1] == nm and kk[2].startswith('__')]:
                if k2 not in seen:
                    work.append(k2)
    return seen


# ------------------------------------------------------------------------------ D-ATTR
def _self_name(fn):
    if any(isinstance(d, ast.Name) and d.id in ('staticmethod',) for d in fn.decorator_list):
        return None
    a = fn.args.posonlyargs + fn.args.args
    return a[0].arg if a else None


def class_table(repo):
    """name -> dict(node, module, bases, defined, dynamic)"""
    tab = {}
    for m in repo.modules.values():
        if not m.name.startswith('topsim'):
            continue
        for n in ast.walk(m.orig_tree):
            if isinstance(n, ast.ClassDef) and n.name not in tab:
                bases = []
                for b in n.bases:
                    bases.append(b.id if isinstance(b, ast.Name) else getattr(b, 'attr', '?'))
                tab[n.name] = dict(node=n, module=m, bases=bases, defined=set(), dynamic=False)
    for name, e in tab.items():
        n = e['node']
        for b in n.body:
            if isinstance(b, (ast.FunctionDef, ast.AsyncFunctionDef)):
                e['defined'].add(b.name)
                if b.name in ('__getattr__', '__getattribute__'):
                    e['dynamic'] = True
                me = _self_name(b)
                aug = {id(x.target) for x in ast.walk(b) if isinstance(x, ast.AugAssign)}
                for x in ast.walk(b):
                    if isinstance(x, ast.Attribute) and isinstance(x.ctx, (ast.Store,)) and isinstance(
                            x.value, ast.Name) and x.value.id == me and id(x) not in aug:
                        e['defined'].add(x.attr)
                    elif isinstance(x, ast.Call) and isinstance(x.func, ast.Name) and x.func.id in (
                            'setattr', 'vars') :
                        e['dynamic'] = True
                    elif isinstance(x, ast.Attribute) and x.attr == '__dict__':
                        e['dynamic'] = True
            elif isinstance(b, ast.Assign):
                for t in b.targets:
                    for x in ast.walk(t):
                        if isinstance(x, ast.Name):
                            e['defined'].add(x.id)
            elif isinstance(b, ast.AnnAssign) and isinstance(b.target, ast.Name):
                e['defined'].add(b.target.id)
            elif isinstance(b, ast.ClassDef):
                e['defined'].add(b.name)
        if n.decorator_list:
            # dataclass etc: annotated fields are attributes
            pass
    return tab


def _family(tab, name):
    """the class, its known bases and every known subclass (with their bases); None when a base is
    unknown to the package (attributes may come from it)"""
    out = set()
    unknown = False

    def up(c):
        nonlocal unknown
        if c in out:
            return
        out.add(c)
        for b in tab[c]['bases']:
            if b in tab:
                up(b)
            elif b not in ('object', 'ABC', 'Enum', 'Algorithm'):
                unknown = True
    up(name)
    changed = True
    while changed:
        changed = False
        for c, e in tab.items():
            if c not in out and any(b in out for b in e['bases']):
                up(c)
                changed = True
    return None if unknown else out


def external_stores(repo):
    out = set()
    for m in repo.modules.values():
        if not m.name.startswith('topsim'):
            continue
        top = ast.Module(body=[st for st in m.orig_tree.body if not isinstance(
            st, (ast.FunctionDef, ast.AsyncFunctionDef, ast.ClassDef))], type_ignores=[])
        for c, f in list(_functions(m.orig_tree)) + [(None, top)]:
            me = _self_name(f) if c is not None else None
            aug = {id(x.target) for x in ast.walk(f) if isinstance(x, ast.AugAssign)}
            for x in ast.walk(f):
                if isinstance(x, ast.Attribute) and isinstance(x.ctx, ast.Store) and id(x) not in aug:
                    if not (isinstance(x.value, ast.Name) and x.value.id == me):
                        out.add(x.attr)
    return out


def check_attrs(repo, res, rule, reach=None):
    tab = class_table(repo)
    ext = external_stores(repo)
    reach = reach if reach is not None else reachable(repo)
    n_reads = n_cls = 0
    for m in sorted(repo.modules.values(), key=lambda m: m.name):
        if not _live(m):
            continue
        for c, f in _functions(m.orig_tree):
            if c is None or (m.name, c.name, f.name) not in reach:
                continue
            fam = _family(tab, c.name)
            if fam is None or any(tab[x]['dynamic'] for x in fam):
                continue
            defined = set().union(*[tab[x]['defined'] for x in fam]) | ext
            me = _self_name(f)
            if me is None:
                continue
            n_cls += 1
            done = set()
            guarded = {a.args[1].value for a in ast.walk(f) if isinstance(a, ast.Call) and isinstance(
                a.func, ast.Name) and a.func.id in ('hasattr', 'getattr') and len(a.args) >= 2 and isinstance(
                    a.args[1], ast.Constant)}
            for x in ast.walk(f):
                if isinstance(x, ast.Attribute) and isinstance(x.ctx, ast.Load) and isinstance(
                        x.value, ast.Name) and x.value.id == me:
                    n_reads += 1
                    if x.attr.startswith('__') or x.attr in defined or x.attr in guarded or x.attr in done:
                        continue
                    done.add(x.attr)
                    fi = _func_info(repo, m, c, f)
                    res.bad(rule, fi, x, '%s.%s reads self.%s' % (c.name, f.name, x.attr),
                            'nothing in the package defines the attribute `%s` of %s (no store through self in the '
                            'class, its bases or subclasses, no class-level binding, no store on another object): '
                            'the read raises AttributeError and the run does not complete' % (x.attr, c.name))
    return n_reads, n_cls


def _func_info(repo, m, c, f):
    q = ('%s.%s' % (c.name, f.name)) if c is not None else '%s:%s' % (m.short, f.name)
    fi = repo.functions.get(q)
    if fi is not None:
        return fi
    # nested class method or a function the index does not hold: a stand-in with the same interface
    class _F:
        pass
    o = _F()
    o.qual, o.module, o.node, o.name, o.cls = q, m, f, f.name, None
    o.file = m.rel
    o.where = lambda node=None: '%s:%d' % (m.rel, getattr(node if node is not None else f, 'lineno', 0))
    return o


# ------------------------------------------------------------------------------ D-NAME
_BUILTINS = set(dir(builtins))


def _module_names(tree):
    out = set()
    star = False
    for n in ast.walk(tree):
        # anything bound at module level, also under if/try/with/for
        pass
    def block(stmts):
        nonlocal star
        for st in stmts:
            if isinstance(st, (ast.FunctionDef, ast.AsyncFunctionDef, ast.ClassDef)):
                out.add(st.name)
                continue
            if isinstance(st, ast.Import):
                for a in st.names:
                    out.add(a.asname or a.name.split('.')[0])
            elif isinstance(st, ast.ImportFrom):
                for a in st.names:
                    if a.name == '*':
                        star = True
                    out.add(a.asname or a.name)
            for x in ast.walk(st):
                if isinstance(x, ast.Name) and isinstance(x.ctx, ast.Store):
                    out.add(x.id)
    block(tree.body)
    for n in ast.walk(tree):
        if isinstance(n, ast.Global):
            out.update(n.names)
    return out, star


def _params(fn):
    a = fn.args
    out = {x.arg for x in a.posonlyargs + a.args + a.kwonlyargs}
    if a.vararg:
        out.add(a.vararg.arg)
    if a.kwarg:
        out.add(a.kwarg.arg)
    return out


def _own_nodes(fn):
    """nodes of fn's own scope: not inside nested functions/lambdas/classes; comprehensions are
    walked separately because their targets are scoped to them"""
    # defaults, decorators and annotations are evaluated in the enclosing scope
    stack = list(fn.body) if not isinstance(fn, ast.Lambda) else [fn.body]
    while stack:
        n = stack.pop()
        yield n
        if isinstance(n, (ast.FunctionDef, ast.AsyncFunctionDef, ast.Lambda, ast.ClassDef)):
            continue
        stack.extend(ast.iter_child_nodes(n))


def _local_names(fn):
    loc = set()
    glob = set()
    comp = set()
    for n in _own_nodes(fn):
        if isinstance(n, ast.comprehension):
            comp.update(id(x) for x in ast.walk(n.target))
    for n in _own_nodes(fn):
        if isinstance(n, ast.Name) and isinstance(n.ctx, (ast.Store, ast.Del)):
            if id(n) not in comp:
                loc.add(n.id)
        elif isinstance(n, (ast.FunctionDef, ast.AsyncFunctionDef, ast.ClassDef)):
            loc.add(n.name)
        elif isinstance(n, ast.Import):
            for a in n.names:
                loc.add(a.asname or a.name.split('.')[0])
        elif isinstance(n, ast.ImportFrom):
            for a in n.names:
                loc.add(a.asname or a.name)
        elif isinstance(n, ast.ExceptHandler) and n.name:
            loc.add(n.name)
        elif isinstance(n, (ast.Global, ast.Nonlocal)):
            glob.update(n.names)
        elif isinstance(n, (ast.MatchAs, ast.MatchStar)) and n.name:
            loc.add(n.name)
        elif isinstance(n, ast.MatchMapping) and n.rest:
            loc.add(n.rest)
    return loc - glob, glob


class _Flow:
    """structured may-assigned analysis of one function scope; reports loads of locals that
    cannot have been assigned"""

    def __init__(self, fn, locals_, outer, report):
        self.fn = fn
        self.locals = locals_
        self.outer = outer       # names visible from enclosing scopes / module / builtins
        self.report = report

    # expressions: evaluation order matters little; comprehension targets are bound inside
    def expr(self, e, A):
        if e is None:
            return A
        if isinstance(e, ast.Name):
            if isinstance(e.ctx, ast.Load):
                if e.id in self.locals and e.id not in A:
                    self.report(e, 'unbound')
            return A
        if isinstance(e, ast.NamedExpr):
            A = self.expr(e.value, A)
            return A | {e.target.id}
        if isinstance(e, (ast.Lambda, ast.FunctionDef, ast.AsyncFunctionDef)):
            return A          # body runs later: judged as its own scope with everything maybe-bound
        if isinstance(e, (ast.ListComp, ast.SetComp, ast.GeneratorExp, ast.DictComp)):
            B = set(A)
            for g in e.generators:
                B = self.expr(g.iter, B)
                for x in ast.walk(g.target):
                    if isinstance(x, ast.Name):
                        B = B | {x.id}
                for c in g.ifs:
                    B = self.expr(c, B)
            saved = self.locals
            extra = {x.id for g in e.generators for x in ast.walk(g.target) if isinstance(x, ast.Name)}
            self.locals = self.locals | extra
            if isinstance(e, ast.DictComp):
                self.expr(e.key, B)
                self.expr(e.value, B)
            else:
                self.expr(e.elt, B)
            self.locals = saved
            return A
        if isinstance(e, ast.BoolOp):
            A = self.expr(e.values[0], A)
            B = A
            for v in e.values[1:]:
                B = self.expr(v, B)
            return A | B if True else A    # names bound by a walrus in a later operand MAY be bound
        if isinstance(e, ast.IfExp):
            A = self.expr(e.test, A)
            return self.expr(e.body, A) | self.expr(e.orelse, A)
        for c in ast.iter_child_nodes(e):
            if isinstance(c, ast.expr):
                A = self.expr(c, A)
            elif isinstance(c, (ast.keyword,)):
                A = self.expr(c.value, A)
            elif isinstance(c, ast.comprehension):
                pass
            elif isinstance(c, ast.arguments):
                pass
        return A

    def target(self, t, A):
        if isinstance(t, ast.Name):
            return A | {t.id}
        if isinstance(t, (ast.Tuple, ast.List)):
            for x in t.elts:
                A = self.target(x, A)
            return A
        if isinstance(t, ast.Starred):
            return self.target(t.value, A)
        # attribute / subscript target: its base is read
        return self.expr(t, A)

    def stores_in(self, stmts):
        out = set()
        for st in stmts:
            # an augmented assignment binds nothing that was not bound before it
            aug = {id(x.target) for x in ast.walk(st) if isinstance(x, ast.AugAssign)}
            for x in ast.walk(st):
                if isinstance(x, ast.Name) and isinstance(x.ctx, ast.Store) and id(x) not in aug:
                    out.add(x.id)
                elif isinstance(x, (ast.FunctionDef, ast.AsyncFunctionDef, ast.ClassDef)):
                    out.add(x.name)
                elif isinstance(x, ast.ExceptHandler) and x.name:
                    out.add(x.name)
                elif isinstance(x, (ast.Import, ast.ImportFrom)):
                    for a in x.names:
                        out.add(a.asname or a.name.split('.')[0])
        return out

    def block(self, stmts, A):
        """returns the may-assigned set after the block (None when the block cannot fall through
        is not tracked: over-approximation keeps the analysis silent rather than wrong)"""
        for st in stmts:
            A = self.stmt(st, A)
        return A

    def stmt(self, st, A):
        if isinstance(st, (ast.FunctionDef, ast.AsyncFunctionDef)):
            for d in st.decorator_list:
                A = self.expr(d, A)
            for d in st.args.defaults + [k for k in st.args.kw_defaults if k is not None]:
                A = self.expr(d, A)
            return A | {st.name}
        if isinstance(st, ast.ClassDef):
            return A | {st.name}
        if isinstance(st, ast.Assign):
            A = self.expr(st.value, A)
            for t in st.targets:
                A = self.target(t, A)
            return A
        if isinstance(st, ast.AnnAssign):
            if st.value is not None:
                A = self.expr(st.value, A)
                A = self.target(st.target, A)
            return A
        if isinstance(st, ast.AugAssign):
            A = self.expr(st.value, A)
            if isinstance(st.target, ast.Name):
                if st.target.id in self.locals and st.target.id not in A:
                    self.report(st.target, 'unbound')
                return A | {st.target.id}
            return self.expr(st.target, A)
        if isinstance(st, (ast.For, ast.AsyncFor)):
            A = self.expr(st.iter, A)
            head = A | self.stores_in(st.body)        # a later iteration sees the body's stores
            head = self.target(st.target, head)
            self.block(st.body, head)
            out = A | self.stores_in([st])
            return self.block(st.orelse, out)
        if isinstance(st, ast.While):
            head = A | self.stores_in(st.body)
            head = self.expr(st.test, head)
            self.block(st.body, head)
            return self.block(st.orelse, head)
        if isinstance(st, ast.If):
            A = self.expr(st.test, A)
            return self.block(st.body, set(A)) | self.block(st.orelse, set(A))
        if isinstance(st, (ast.With, ast.AsyncWith)):
            for it in st.items:
                A = self.expr(it.context_expr, A)
                if it.optional_vars is not None:
                    A = self.target(it.optional_vars, A)
            return self.block(st.body, A)
        if isinstance(st, ast.Try) or st.__class__.__name__ == 'TryStar':
            body_out = self.block(st.body, set(A))
            may = A | self.stores_in(st.body)
            outs = [self.block(st.orelse, set(body_out))]
            for h in st.handlers:
                B = set(may)
                if h.type is not None:
                    B = self.expr(h.type, B)
                if h.name:
                    B = B | {h.name}
                outs.append(self.block(h.body, B))
            out = set().union(*outs) | may
            return self.block(st.finalbody, out)
        if isinstance(st, ast.Match):
            A = self.expr(st.subject, A)
            out = set(A)
            for c in st.cases:
                B = A | {x.name for x in ast.walk(c.pattern) if isinstance(x, (ast.MatchAs, ast.MatchStar)) and x.name}
                if c.guard is not None:
                    B = self.expr(c.guard, B)
                out |= self.block(c.body, B)
            return out
        if isinstance(st, ast.Delete):
            return A
        if isinstance(st, (ast.Import, ast.ImportFrom)):
            return A | {a.asname or a.name.split('.')[0] for a in st.names}
        if isinstance(st, (ast.Global, ast.Nonlocal, ast.Pass, ast.Break, ast.Continue)):
            return A
        # Expr, Return, Raise, Assert: read their expressions
        for c in ast.iter_child_nodes(st):
            if isinstance(c, ast.expr):
                A = self.expr(c, A)
        return A


def check_names(repo, res, rule, reach=None):
    reach = reach if reach is not None else reachable(repo)
    n_loads = n_funcs = 0
    for m in sorted(repo.modules.values(), key=lambda m: m.name):
        if not _live(m):
            continue
        modnames, star = _module_names(m.orig_tree)
        if star:
            continue
        for c, f in _functions(m.orig_tree):
            if (m.name, c.name if c else None, f.name) not in reach:
                continue
            fi = _func_info(repo, m, c, f)
            n_funcs += 1
            if hasattr(res, 'analysed'):
                res.analysed(fi)
            n_loads += _scope(fi, f, modnames | _BUILTINS, set(), res, rule)
    return n_loads, n_funcs


def _scope(fi, fn, visible, enclosing_locals, res, rule):
    """judge one function scope, then its nested scopes (whose free names see this scope's locals
    as maybe-bound)"""
    loc, glob = _local_names(fn)
    params = _params(fn) if not isinstance(fn, ast.Module) else set()
    loc |= params
    n = 0
    seen = set()

    def report(node, kind):
        if node.id in seen:
            return
        seen.add(node.id)
        res.bad(rule, fi, node, '`%s` read in %s' % (node.id, fi.qual),
                'the local name `%s` cannot have been assigned when it is read here (no assignment on any path '
                'to this line): UnboundLocalError, the run does not complete' % node.id)

    compvars = {y.id for x in _own_nodes(fn) if isinstance(x, ast.comprehension) for y in ast.walk(x.target)
                if isinstance(y, ast.Name)}
    flow = _Flow(fn, loc, visible | enclosing_locals, report)
    if isinstance(fn, ast.Lambda):
        flow.expr(fn.body, set(params))
    else:
        flow.block(fn.body, set(params))
    for x in _own_nodes(fn):
        if isinstance(x, ast.Name) and isinstance(x.ctx, ast.Load):
            n += 1
            if x.id not in loc and x.id not in visible and x.id not in enclosing_locals and x.id not in glob \
                    and x.id not in seen and x.id not in compvars:
                # comprehension variables are Store names in _own_nodes, so they are in loc
                seen.add(x.id)
                res.bad(rule, fi, x, '`%s` read in %s' % (x.id, fi.qual),
                        'the name `%s` is bound nowhere (not a parameter, a local, a name of an enclosing function, '
                        'a module-level name or a builtin): NameError, the run does not complete' % x.id)
    for x in _own_nodes(fn):
        if isinstance(x, (ast.FunctionDef, ast.AsyncFunctionDef, ast.Lambda)):
            n += _scope(fi, x, visible, enclosing_locals | loc, res, rule)
    return n


# ------------------------------------------------------------------------------ D-OBJ
def check_obj_attrs(repo, res, rule, reach=None):
    """`E.X` read where E is (by the index's type inference) an object of a package class and X is
    defined by no class of the package at all and stored on no object anywhere: AttributeError.
    Both conditions are required, so a wrong type guess alone never raises an alarm."""
    tab = class_table(repo)
    ext = external_stores(repo)
    everywhere = set(ext)
    for e in tab.values():
        everywhere |= e['defined']
    if any(e['dynamic'] for e in tab.values()):
        pass
    reach = reach if reach is not None else reachable(repo)
    n = 0
    for f in repo.all_functions(include_inlined=True):
        m = f.module
        if not _live(m) or (m.name, f.cls.name if f.cls else None, f.name) not in reach or m.name in SKIP_TYPED:
            continue
        # judged on the source as written
        node = _orig_node(m, f)
        if node is None:
            continue
        me = _self_name(node) if f.cls is not None else None
        done = set()
        for x in ast.walk(node):
            if isinstance(x, ast.Attribute) and isinstance(x.ctx, ast.Load) and not (
                    isinstance(x.value, ast.Name) and x.value.id == me):
                if x.attr.startswith('__') or x.attr in done or x.attr in ext:
                    continue
                # types inferred from constructor calls and call sites only, not from parameter names
                repo.no_role_hints = True
                try:
                    ts = repo.expr_types(x.value, f)
                except Exception:
                    ts = set()
                finally:
                    repo.no_role_hints = False
                if not ts or any(t not in tab for t in ts):
                    continue
                n += 1
                fams = [_family(tab, t) for t in ts]
                if any(fm is None or any(tab[c]['dynamic'] for c in fm) for fm in fams):
                    continue
                if any(x.attr in tab[c]['defined'] for fm in fams for c in fm):
                    continue
                done.add(x.attr)
                res.bad(rule, f, x, '%s reads %s' % (f.qual, ast.unparse(x)[:60]),
                        '`%s` is an object of %s and nothing defines an attribute `%s` for it (no store through self in '
                        'the class family, no class-level binding, no store on another object): the read raises AttributeError and the run does not complete' % (
                            ast.unparse(x.value)[:40], '/'.join(sorted(ts)), x.attr))
    return n


def _orig_node(m, f):
    for c, fn in _functions(m.orig_tree):
        if fn.name == f.name and ((c.name if c else None) == (f.cls.name if f.cls else None)):
            return fn
    return None


# ------------------------------------------------------------------------------ D-PATH
def _own_loads(node):
    """Name loads evaluated when the statement/test itself runs (not the bodies of lambdas,
    nested functions or comprehension elements -- of a comprehension only its first iterable)"""
    out = []
    stack = [node]
    while stack:
        n = stack.pop()
        if isinstance(n, (ast.Lambda, ast.FunctionDef, ast.AsyncFunctionDef)):
            continue
        if isinstance(n, (ast.ListComp, ast.SetComp, ast.DictComp, ast.GeneratorExp)):
            stack.append(n.generators[0].iter)
            continue
        if isinstance(n, ast.Name) and isinstance(n.ctx, ast.Load):
            out.append(n)
        stack.extend(ast.iter_child_nodes(n))
    return out


def _stores(node):
    return {n.id for n in ast.walk(node) if isinstance(n, ast.Name) and isinstance(n.ctx, ast.Store)}


def check_path_assigned(repo, res, rule, reach=None):
    """A local read on a feasible path of its function on which nothing has assigned it yet
    (paths that skip a loop are not used: whether a loop can run zero times is not decided
    here).  Judged on the enumerated paths of the normalised function."""
    from ..paths import locally_feasible
    from .common import cached_paths
    reach = reach if reach is not None else reachable(repo)
    n_paths = 0
    for f in repo.all_functions(include_inlined=True):
        m = f.module
        if not _live(m) or (m.name, f.cls.name if f.cls else None, f.name) not in reach:
            continue
        loc, _glob = _local_names(f.node)
        loc -= _params(f.node)
        if not loc:
            continue
        try:
            paths = cached_paths(f)
        except RecursionError:
            continue
        seen = set()

        def use(x, assigned, p):
            if x.id in loc and x.id not in assigned and x.id not in seen:
                if not locally_feasible(p.events):
                    return
                seen.add(x.id)
                res.bad(rule, f, x, '`%s` read in %s' % (x.id, f.qual),
                        'on a path of %s the local `%s` is read before anything has assigned it (it is assigned only on '
                        'other branches): UnboundLocalError when that path is taken, the run does not complete' % (
                            f.qual, x.id), path=p.describe())
        for p in paths:
            if any(e.kind == 'for0' for e in p.events):
                continue
            n_paths += 1
            assigned = set()
            for e in p.events:
                if e.frame is not None and e.frame.func is not f:
                    continue
                n = e.node
                if e.kind in ('stmt', 'test') and n is not None:
                    if e.kind == 'stmt' and isinstance(n, (ast.With, ast.AsyncWith)):
                        for it in n.items:
                            for x in _own_loads(it.context_expr):
                                use(x, assigned, p)
                            if it.optional_vars is not None:
                                assigned |= _stores(it.optional_vars)
                        continue
                    if isinstance(n, ast.AugAssign) and isinstance(n.target, ast.Name):
                        use(n.target, assigned, p)
                    for x in _own_loads(n):
                        use(x, assigned, p)
                    assigned |= _stores(n)
                    if isinstance(n, (ast.FunctionDef, ast.AsyncFunctionDef, ast.ClassDef)):
                        assigned.add(n.name)
                    if isinstance(n, (ast.Import, ast.ImportFrom)):
                        for a in n.names:
                            assigned.add((a.asname or a.name).split('.')[0])
                elif e.kind in ('for', 'loop') and isinstance(n, (ast.For, ast.AsyncFor)):
                    for x in _own_loads(n.iter):
                        use(x, assigned, p)
                    assigned |= _stores(n.target)
                elif e.kind == 'except' and n is not None and getattr(n, 'name', None):
                    assigned.add(n.name)
    return n_paths
