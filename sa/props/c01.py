"""C01 -- a machine never executes two tasks at once.

N1 executor ownership (who may spawn do_work / Machine.run / allocate_task_to_cluster)
N2 occupy-before-run: the workflow path moves the machine into `occupied` before do_work starts
N3 ingest takes machines out of the free pool before the ingest task starts
N4 release only after completion: a machine returns to a free pool only under ret.triggered,
   ret being the process handle of this task's do_work
N5 hazard x defence matrix: every hazardous proposal (machine occupied / on ingest / reserved for
   another observation / proposed twice in one round) has at least one effective defence
   (scheduler guard OR cluster check) -- disjunctive on purpose
"""
import ast

from ..index import AnalysisError, is_spawn, walk_no_nested
from ..norm import Canon, Lit, Logic, effects_of_event, path_effects, effects_along
from ..paths import (Frame, cached_paths, contains_yield, expand, feasible, feasible_consts,
                     function_paths, world_frame)
from ..simpy_model import witness
from . import cluster_units as CU
from .common import call_name, enclosing_loops, iteration_segments, path_must, short, stmt_contains

FLOORS = {'C01.N1': 4, 'C01.N2': 1, 'C01.N3': 2, 'C01.N4': 2, 'C01.N5': 4}

EXECUTORS = {
    'Task.do_work': ({'Cluster.allocate_task_to_cluster', 'Machine.run'}, True),
    'Machine.run': ({'Cluster.allocate_task_to_cluster'}, False),
    'Cluster.allocate_task_to_cluster': ({'Scheduler._process_current_schedule',
                                          'Cluster.provision_ingest_resources'}, True),
}
AVAIL = "Cluster._resources['available']"
INGEST = "Cluster._resources['ingest']"
OCC = "Cluster._resources['occupied']"


def is_do_work_spawn(n):
    return is_spawn(n) and call_name(n.args[0]) == 'do_work'


def check(repo, res, tier):
    canon = Canon(repo)
    logic = Logic(canon)
    res.rule('C01.N1', 'do_work / Machine.run / allocate_task_to_cluster are started only from their owners')
    res.rule('C01.N2', 'workflow allocation: machine leaves available/idle[obs] and enters occupied before do_work is spawned')
    res.rule('C01.N3', 'ingest provisioning: available.remove(machine) and ingest.append(machine) precede the ingest spawn; '
                       'over-demand raises before any effect')
    res.rule('C01.N4', 'a machine is returned to a free pool only under ret.triggered, ret = handle of this task\'s do_work')
    res.rule('C01.N5', 'each hazard {occupied, ingest, foreign reservation, duplicate in round} is stopped by the '
                       'scheduler guard or by the cluster check (skip or error)')
    res.rule('C01.N6', 'adopted C02.P2 (a machine is in exactly one pool, so "not in a free pool" means busy) and C06.W2 '
                       '(a task holds its machine for exactly as long as it executes)')
    res.assumptions += ['pool disjointness (established by C02.P2) is used inside the world analysis',
                        'SimPy: a spawned process runs its first segment before any other process\'s timeout (E7)']
    res.extra['simpy_witness'] = witness()
    n1(repo, res)
    us = CU.dedupe(CU.units(repo))
    n2_n4(repo, res, canon, logic, us)
    n3(repo, res, canon, logic)
    n5(repo, res, canon, logic)
    from . import c02, c06
    from .common import borrow
    borrow(repo, res, tier, c02, {'C02.P2'}, 'C01.N6')
    borrow(repo, res, tier, c06, {'C06.W2'}, 'C01.N6')


def n1(repo, res):
    for target, (owners, must_spawn) in EXECUTORS.items():
        sites = repo.call_sites({target})
        for f, call, spawned, exact in sites:
            if f.module.name.startswith(('topsim.utils', 'topsim.recipes')):
                continue
            what = '%s of %s in %s' % ('spawn' if spawned else 'call', target, f.qual)
            if f.qual in owners:
                res.ok('C01.N1', f, call, what)
            elif not exact and target == 'Machine.run':
                continue    # unresolved `.run(` on an unknown receiver (actor loops, algorithms)
            else:
                res.bad('C01.N1', f, call, what,
                        '%s starts %s outside the pool accounting of the cluster: the machine it runs on '
                        'is not marked busy, so a second task can be started on it' % (f.qual, target))
        if not sites:
            res.bad('C01.N1', repo.func(target), None, 'no start site of %s' % target, 'nothing runs %s' % target)


def n2_n4(repo, res, canon, logic, us):
    alloc = repo.func('Cluster.allocate_task_to_cluster')
    mparam, tparam = alloc.params[2], alloc.params[1]
    n2_ok = n2_bad = 0
    n4_sites = {}
    for u in us:
        if u.func is not alloc:
            continue
        ingest_world = u.world.get('ingest')
        # ---- N2 ------------------------------------------------------------
        if ingest_world is False and not CU.raises(u):
            moved_out = moved_in = False
            for e, efs in u.effects:
                for ef in efs:
                    if ef.arg == mparam and ef.kind == 'remove' and CU.pool_of(ef.loc) in ('available', 'idle'):
                        moved_out = True
                    if ef.arg == mparam and ef.kind == 'append' and ef.loc == OCC:
                        moved_in = True
                if e.kind == 'stmt' and e.frame.depth == 0 and any(is_do_work_spawn(n) for n in ast.walk(e.node)):
                    if moved_out and moved_in:
                        n2_ok += 1
                    else:
                        n2_bad += 1
                        res.bad('C01.N2', alloc, e.node, 'do_work spawned before the machine is occupied',
                                'on this path the task starts executing while its machine is still in a '
                                'free pool (removed from free pool: %s, added to occupied: %s): the next '
                                'allocation round can start a second task on it' % (moved_out, moved_in),
                                path=u.path.describe())
        # ---- N4 ------------------------------------------------------------
        for i, (e, efs) in enumerate(u.effects):
            for ef in efs:
                if ef.kind == 'append' and CU.pool_of(ef.loc) in ('available', 'idle') and ef.arg == mparam:
                    # dominated by ret.triggered?
                    idx = u.path.events.index(e) if e in u.path.events else None
                    evs = u.path.events[:idx] if idx is not None else [x for x, _ in u.effects[:i]]
                    must = set()
                    for x in evs:
                        if x.kind == 'test' and x.frame.depth == 0:
                            must |= logic.must(x.node, x.frame, x.pol, )
                    trig = [l for l in must if l.pol and l.atom.startswith('truthy(') and l.atom.endswith('.triggered)')]
                    key = (ef.node.lineno, ef.loc)
                    ok = bool(trig)
                    handle = trig[0].atom[7:-len('.triggered)')] if trig else None
                    n4_sites.setdefault(key, []).append((ok, handle, u, ef))
    if n2_ok and not n2_bad:
        res.ok('C01.N2', alloc, None, 'every workflow path occupies the machine before spawning do_work',
               '%d block(s)' % n2_ok)
    elif not n2_ok and not n2_bad:
        res.bad('C01.N2', alloc, None, 'no do_work spawn on the workflow path', 'the workflow branch never starts the task')
    for key, lst in sorted(n4_sites.items()):
        bad = [x for x in lst if not x[0]]
        ef = lst[0][3]
        what = 'release `%s` only under <handle>.triggered' % short(ast.unparse(ef.node), 60)
        if bad:
            res.bad('C01.N4', alloc, ef.node, 'release at line %d not under ret.triggered' % key[0],
                    'the machine is handed back to a free pool on a path that has not tested that the '
                    'task\'s process has finished: it can be given to another task while still executing',
                    path=bad[0][2].path.describe(), what=what)
        else:
            res.ok('C01.N4', alloc, ef.node, what, 'handle %s' % lst[0][1])
    if not n4_sites:
        res.bad('C01.N4', alloc, None, 'no release of machines', 'machines are never returned')
    # the handle is the process of THIS task's do_work
    handles = {x[1] for lst in n4_sites.values() for x in lst if x[1]}
    for h in sorted(handles):
        def _defs(name, seen):
            out = []
            for n in walk_no_nested(alloc.node):
                if isinstance(n, ast.Assign) and any(isinstance(t, ast.Name) and t.id == name for t in n.targets):
                    # a plain copy of another local (left by inlining a helper that returns the
                    # handle) stands for that local's definitions
                    if isinstance(n.value, ast.Name) and n.value.id not in seen and n.value.id != name:
                        sub = _defs(n.value.id, seen | {name})
                        if sub:
                            out += sub
                            continue
                    out.append(n)
            return out
        defs = _defs(h, set())
        ok = True
        why = ''
        nonnull = 0
        for d in defs:
            v = d.value
            if isinstance(v, ast.Constant) and v.value is None:
                continue
            nonnull += 1
            if is_do_work_spawn(v) and canon.c(v.args[0].func.value, Frame(alloc)) == tparam:
                continue
            if isinstance(v, ast.Call) and call_name(v) == 'run' and canon.c(v.func.value, Frame(alloc)) == mparam \
                    and v.args and canon.c(v.args[0], Frame(alloc)) == tparam:
                mr = repo.func('Machine.run')
                rets = [r for r in walk_no_nested(mr.node) if isinstance(r, ast.Return) and r.value is not None]
                okr = bool(rets)
                for r in rets:
                    rv = r.value
                    if isinstance(rv, ast.Name):
                        ds = [n.value for n in walk_no_nested(mr.node) if isinstance(n, ast.Assign) and any(
                            isinstance(t, ast.Name) and t.id == rv.id for t in n.targets)
                            and not (isinstance(n.value, ast.Constant) and n.value.value is None)]
                        okr = okr and bool(ds) and all(is_do_work_spawn(x) for x in ds)
                    else:
                        okr = okr and is_do_work_spawn(rv)
                if okr:
                    continue
                ok, why = False, 'Machine.run does not return the do_work process'
            else:
                ok, why = False, '`%s` is not the process of this task\'s do_work' % short(ast.unparse(d))
        what = 'handle `%s` is the process of this task\'s do_work' % h
        (res.ok if ok and nonnull else res.bad)('C01.N4', alloc, defs[0] if defs else None, what,
                                                'ok' if ok and nonnull else why or 'no definition')


def n3(repo, res, canon, logic):
    f = repo.func('Cluster.provision_ingest_resources')
    res.analysed(f, len(cached_paths(f)))
    spawns = [n for n in walk_no_nested(f.node) if is_spawn(n) and call_name(n.args[0]) == 'allocate_task_to_cluster']
    if not spawns:
        res.bad('C01.N3', f, None, 'no ingest spawn', 'ingest provisioning starts no task')
        return
    for sp in spawns:
        margs = sp.args[0].args
        m = canon.c(margs[1], Frame(f)) if len(margs) > 1 else None
        loops = [l for l in enclosing_loops(f, sp) if isinstance(l, ast.For)]
        ok = bool(loops)
        why = 'the ingest spawn is not inside the per-machine loop'
        if loops:
            for seg, how in iteration_segments(f, loops[-1]):
                rem = app = False
                for e, _efs in effects_along(canon, seg):
                    for ef in _efs:
                        if ef.arg == m and ef.kind == 'remove' and ef.loc == AVAIL:
                            rem = True
                        if ef.arg == m and ef.kind == 'append' and ef.loc == INGEST:
                            app = True
                    if stmt_contains(e, lambda x: x is sp):
                        if not (rem and app):
                            ok = False
                            why = ('the ingest task is started on `%s` before the machine has left the '
                                   'available pool (removed: %s, added to ingest: %s): a workflow task can '
                                   'be allocated to it in the same timestep' % (m, rem, app))
                        break
        (res.ok if ok else res.bad)('C01.N3', f, sp, 'ingest machine leaves available and enters ingest before its task is spawned',
                                    'ok' if ok else why)
    # over-demand raises before any effect
    ok = False
    for p in cached_paths(f):
        if p.exit == 'raise':
            effs = path_effects(canon, p.events)
            if not effs:
                tests = [e for e in p.events if e.kind == 'test']
                if tests and 'len(' in canon.c(tests[0].node, tests[0].frame):
                    ok = True
    (res.ok if ok else res.bad)('C01.N3', f, None, 'demand above the free machines is refused before any effect',
                                'ok' if ok else 'provision_ingest_resources no longer refuses a demand larger than '
                                'the available pool before changing state')


# --------------------------------------------------------------------------- N5
HAZARDS = ['machine occupied by a workflow task', 'machine busy with ingest',
           'machine reserved for another observation', 'machine proposed twice in one round']


def n5(repo, res, canon, logic):
    s = repo.func('Scheduler._process_current_schedule')
    sfr = Frame(s)
    spaths = cached_paths(s)
    res.analysed(s, len(spaths))
    spawns = [n for n in walk_no_nested(s.node) if is_spawn(n) and call_name(n.args[0]) == 'allocate_task_to_cluster']
    sched_def = {h: False for h in HAZARDS}
    detail = {}
    if spawns:
        sp = spawns[0]
        m = canon.c(sp.args[0].args[1], sfr) if len(sp.args[0].args) > 1 else None
        all_occ = all_ing = all_dup = True
        dup_list = None
        seen = False
        for p in spaths:
            for i, e in enumerate(p.events):
                if stmt_contains(e, lambda x: x is sp):
                    seen = True
                    must = path_must(logic, p, i, depth=1)
                    if Lit('%s in %s' % (m, OCC), False) not in must:
                        all_occ = False
                    if Lit('%s in %s' % (m, INGEST), False) not in must:
                        all_ing = False
                    locs = [l.atom.split(' in ', 1)[1] for l in must
                            if not l.pol and l.atom.startswith(m + ' in ') and
                            not l.atom.split(' in ', 1)[1].startswith('Cluster.')]
                    ok_dup = False
                    for L in locs:
                        # L starts empty before the loop and receives m after the spawn on this path
                        init = any(isinstance(n, ast.Assign) and any(isinstance(t, ast.Name) and t.id == L
                                                                     for t in n.targets)
                                   and isinstance(n.value, ast.List) and not n.value.elts
                                   and not enclosing_loops(s, n) for n in walk_no_nested(s.node))
                        later = False
                        for x in p.events[i:]:
                            if x.kind in ('back', 'exit'):
                                break
                            for ef in effects_of_event(canon, x):
                                if ef.kind == 'append' and ef.loc == L and ef.arg == m:
                                    later = True
                        if init and later:
                            ok_dup, dup_list = True, L
                    if not ok_dup:
                        all_dup = False
                    break
        if seen:
            sched_def[HAZARDS[0]] = all_occ
            sched_def[HAZARDS[1]] = all_ing
            sched_def[HAZARDS[3]] = all_dup
            detail['scheduler'] = 'guard on %s: not occupied=%s, not ingest=%s, per-round list %s=%s' % (
                m, all_occ, all_ing, dup_list, all_dup)
    # ---- cluster check: five worlds ------------------------------------------
    alloc = repo.func('Cluster.allocate_task_to_cluster')
    mparam, oparam = alloc.params[2], 'observation'
    W = CU.Walker(canon, logic)
    own_idle = "Cluster._resources['idle'][%s]" % oparam
    worlds = {
        'available': {AVAIL: True, INGEST: False, OCC: False, own_idle: False},
        'ingest': {AVAIL: False, INGEST: True, OCC: False, own_idle: False},
        'occupied': {AVAIL: False, INGEST: False, OCC: True, own_idle: False},
        'own-idle': {AVAIL: False, INGEST: False, OCC: False, own_idle: True},
        'foreign-idle': {AVAIL: False, INGEST: False, OCC: False, own_idle: False},
    }
    reach = {}
    fr = world_frame(alloc, {'ingest': False})
    base = []
    for p0 in function_paths(alloc, fr):
        if not feasible_consts(p0) or CU.none_attr_infeasible(p0):
            continue
        for p in expand(repo, p0, 2, CU.inline_cluster_only):
            if feasible(p) and feasible_consts(p) and not CU.none_attr_infeasible(p):
                base.append(p)
    res.analysed(alloc, len(base))
    for wname, mem in worlds.items():
        facts = {(mparam, loc): v for loc, v in mem.items()}
        if wname == 'own-idle':
            facts[(oparam, "Cluster._resources['idle']")] = True
        reached = None
        for p in base:
            # cut at the first top-level yield: the first segment decides
            evs = []
            for e in p.events:
                evs.append(e)
                if e.kind == 'stmt' and e.frame.depth == 0 and contains_yield(e.node):
                    break
            ok, pairs, snap, endf = W.run(evs, facts)
            if not ok:
                continue
            # removing a non-member raises ValueError: the path is rejected with an error
            dead = False
            for (e, efs), fa in zip(pairs, snap):
                for ef in efs:
                    if ef.kind == 'remove' and fa.get((ef.arg, ef.loc)) is False:
                        dead = True
                if dead:
                    break
                if e.kind == 'stmt' and any(is_do_work_spawn(n) for n in ast.walk(e.node)):
                    reached = p
                    break
            if reached:
                break
        reach[wname] = reached
    detail['cluster'] = 'do_work reachable in worlds: %s' % sorted(w for w, p in reach.items() if p)
    if reach.get('available') is None and reach.get('own-idle') is None:
        res.bad('C01.N5', alloc, None, 'legal allocations are refused',
                'the cluster check rejects machines that are available or reserved for the observation')
    clus_def = {HAZARDS[0]: reach['occupied'] is None, HAZARDS[1]: reach['ingest'] is None,
                HAZARDS[2]: reach['foreign-idle'] is None, HAZARDS[3]: reach['occupied'] is None}
    for h in HAZARDS:
        what = 'hazard "%s" has a defence' % h
        if sched_def[h] or clus_def[h]:
            res.ok('C01.N5', s, spawns[0] if spawns else None, what,
                   'scheduler guard: %s; cluster check: %s' % (sched_def[h], clus_def[h]))
        else:
            res.bad('C01.N5', s, spawns[0] if spawns else None, 'no defence against: %s' % h,
                    'a scheduling algorithm that proposes a %s is neither skipped by the scheduler guard '
                    'nor rejected by the cluster: the task is started and the machine executes two tasks '
                    '(%s; %s)' % (h.replace('machine ', 'machine that is '), detail.get('scheduler'), detail.get('cluster')),
                    what=what)
    res.extra['n5_matrix'] = {h: {'scheduler': sched_def[h], 'cluster': clus_def[h]} for h in HAZARDS}
