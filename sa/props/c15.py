"""C15 -- the delay model only lengthens, deterministically, and is reported.

Y1 sibling agreement of the distribution ladder (seeded, array draw, enum via .value)
Y2 only-lengthen: the value returned is an element of the sample above the mean,
   or the runtime itself
Y3 the empty selection is guarded
Y4 identity cases return the argument before any draw
Y5 flag coupling: do_work flags a lengthened task; the scheduler reports DELAYED
"""
import ast
import re

from ..index import AnalysisError, walk_no_nested
from ..norm import Canon, Lit, Logic, ProvCanon, lit_lt
from ..paths import Frame, cached_paths
from .common import call_name, path_must, reaching_value, short, stmt_contains

FLOORS = {'C15.Y1': 3, 'C15.Y2': 2, 'C15.Y3': 1, 'C15.Y4': 1, 'C15.Y5': 2, 'C15.Y6': 4}

# position of the `size` argument of the numpy Generator draws used as samples
SIZE_POS = {'normal': 2, 'poisson': 1, 'uniform': 2, 'exponential': 1, 'standard_normal': 0,
            'binomial': 2, 'integers': 2, 'random': 0}


def check(repo, res, tier):
    canon = Canon(repo)
    logic = Logic(canon)
    pcanon = ProvCanon(repo)
    res.rule('C15.Y1', 'every distribution branch draws an array from default_rng(self.seed) and '
                       'uses the degree only through .value')
    res.rule('C15.Y2', 'returned delay = element of sample[sample > mean] (or >=), or the runtime itself')
    res.rule('C15.Y3', 'indexing the filtered sample is guarded against the empty selection')
    res.rule('C15.Y4', 'degree 0 returns the runtime before any draw; a draw happens only under random() < prob')
    res.rule('C15.Y5', 'do_work sets delay_flag under duration < total; the scheduler reports DELAYED '
                       'for a finished flagged task')
    res.assumptions += ['numpy Generator semantics: default_rng(seed) is reproducible; a draw with a size '
                        'argument returns an array; boolean-mask indexing keeps the elements > mean',
                        'runtimes are whole timesteps, so int(x) >= mu for x > mu']
    f = repo.func('DelayModel._create_random_value_from_runtime')
    fr = Frame(f)
    paths = cached_paths(f)
    res.analysed(f, len(paths))
    rt = f.params[1]
    # ---- the sample variable: what the returned index expression filters ----
    rets0 = [n for n in walk_no_nested(f.node) if isinstance(n, ast.Return) and n.value is not None]
    # a value returned through a local that is set on several branches is judged branch by branch
    rets = []
    from ..paths import assigned_names as _an
    for r in rets0:
        defs = _an(f).get(r.value.id, []) if isinstance(r.value, ast.Name) else []
        if len(defs) > 1 and all(isinstance(d_, ast.Assign) and len(d_.targets) == 1 for d_ in defs):
            rets += defs
        else:
            rets.append(r)
    sample_names = set()
    for r in rets:
        P = canon.p(r.value, fr)
        what = 'return <- element of sample above the mean'
        if P == rt:
            res.ok('C15.Y2', f, r, 'return <- the runtime itself')
            continue
        m = re.fullmatch(r'(?P<S>.+)\[\((?P=S) (?P<op>>=?) %s\)\]\[(?P<i>.*)\]' % re.escape(rt), P) or \
            re.fullmatch(r'(?P<S>.+)\[\(%s (?P<op><=?) (?P=S)\)\]\[(?P<i>.*)\]' % re.escape(rt), P)      # mean < sample
        if m:
            res.ok('C15.Y2', f, r, what, 'filter %s mean' % m.group('op'))
        else:
            res.bad('C15.Y2', f, r, what,
                    'the value returned (%s) is not an element of the sample filtered by '
                    '"> mean": a delay can shorten the task' % short(P, 150))
    # sample assignments = names used as the filtered array source
    filt = None
    for n in walk_no_nested(f.node):
        if isinstance(n, ast.Subscript) and isinstance(n.slice, ast.Compare) and isinstance(
                n.value, ast.Name):
            sample_names.add(n.value.id)
            filt = n
    if not sample_names:
        raise AnalysisError('no filtered sample in _create_random_value_from_runtime')
    # a sample handed over through another local (samples = s) is drawn where that local is set
    grew = True
    while grew:
        grew = False
        for n in walk_no_nested(f.node):
            if isinstance(n, ast.Assign) and len(n.targets) == 1 and isinstance(n.targets[0], ast.Name) \
                    and n.targets[0].id in sample_names and isinstance(n.value, ast.Name) \
                    and n.value.id not in sample_names:
                sample_names.add(n.value.id)
                grew = True
    # ---- Y1: every assignment of a sample ---------------------------------
    for n in walk_no_nested(f.node):
        if not (isinstance(n, ast.Assign) and len(n.targets) == 1 and isinstance(
                n.targets[0], ast.Name) and n.targets[0].id in sample_names):
            continue
        v = n.value
        if isinstance(v, ast.Constant) and v.value is None:
            continue
        if isinstance(v, ast.Name) and v.id in sample_names:
            continue
        draw = v if isinstance(v, ast.Call) and isinstance(v.func, ast.Attribute) else None
        label = short(ast.unparse(v), 90)
        if draw is None:
            res.bad('C15.Y1', f, n, 'sample = %s' % label, 'the sample is not a generator draw')
            continue
        meth = draw.func.attr
        gen = draw.func.value
        # (a) seeded by self.seed
        gp = pcanon.p(gen, fr)
        seeded = gp in ('default_rng(DelayModel.seed)', 'default_rng(seed=DelayModel.seed)')
        if seeded:
            res.ok('C15.Y1', f, n, '%s branch draws from default_rng(self.seed)' % meth)
        else:
            res.bad('C15.Y1', f, n, '%s branch: generator %s' % (meth, short(ast.unparse(gen), 40)),
                    'the %s branch does not draw from default_rng(self.seed): same seed and '
                    'arguments give different delays' % meth)
        # (b) array draw
        pos = SIZE_POS.get(meth)
        has_size = any(k.arg == 'size' for k in draw.keywords) or (
            pos is not None and len(draw.args) > pos)
        if has_size:
            res.ok('C15.Y1', f, n, '%s branch draws an array (size argument)' % meth)
        else:
            res.bad('C15.Y1', f, n, '%s branch: scalar draw %s' % (meth, label),
                    'the %s branch draws a scalar; filtering and indexing it fails (TypeError)' % meth)
        # (c) enum through .value
        bad_enum = None
        for x in ast.walk(v):
            if isinstance(x, ast.BinOp):
                for side in (x.left, x.right):
                    if canon.c(side, fr) == 'DelayModel.degree':
                        bad_enum = x
        if bad_enum is not None:
            res.bad('C15.Y1', f, n, '%s branch: %s' % (meth, short(ast.unparse(bad_enum), 60)),
                    'arithmetic on the DelayDegree enum member itself (not .value) raises TypeError')
        else:
            res.ok('C15.Y1', f, n, '%s branch uses the degree only through .value' % meth)
        # (d) the distribution is centred on the runtime and its spread vanishes with it: a
        # runtime of 0 then draws nothing above the mean and the runtime itself is returned
        from ..norm import affine as _aff, Affine as _A
        pA = lambda x: _aff(pcanon, x, fr)
        RT = _A({rt: 1})
        if meth == 'normal' and len(draw.args) >= 2:
            loc, scale = pA(draw.args[0]), pA(draw.args[1])
            sc_ok = len(scale.terms) == 1 and scale.const == 0 and list(scale.terms.values()) == [1] and \
                next(iter(scale.terms)) in ('(DelayModel.degree.value)*(%s)' % rt, '(%s)*(DelayModel.degree.value)' % rt)
            if loc == RT and sc_ok:
                res.ok('C15.Y1', f, n, 'normal(mean = runtime, spread = degree.value * runtime)')
            else:
                res.bad('C15.Y1', f, n, 'normal(%s, %s)' % (short(repr(loc), 30), short(repr(scale), 50)),
                        'the normal branch draws around %r with spread %r, not around the runtime with spread '
                        'degree.value * runtime: for a runtime of 0 the draw is no longer degenerate and a delay is '
                        'added to a zero-length task (or the mean is not the runtime)' % (loc, scale))
        elif meth == 'poisson' and draw.args:
            lam = pA(draw.args[0])
            if lam == RT:
                res.ok('C15.Y1', f, n, 'poisson(lam = runtime)')
            else:
                res.bad('C15.Y1', f, n, 'poisson(%s)' % short(repr(lam), 40),
                        'the poisson branch is centred on %r, not on the runtime' % lam)
    # also sigma etc.
    for n in walk_no_nested(f.node):
        if isinstance(n, ast.BinOp) and not any(
                isinstance(a, ast.Assign) and a.targets and isinstance(a.targets[0], ast.Name)
                and a.targets[0].id in sample_names and any(x is n for x in ast.walk(a))
                for a in walk_no_nested(f.node)):
            for side in (n.left, n.right):
                if isinstance(side, ast.Attribute) and side.attr == 'degree':
                    res.bad('C15.Y1', f, n, short(ast.unparse(n), 60),
                            'arithmetic on the DelayDegree enum member itself (not .value)')
    # ---- Y3: indexing the filtered array is guarded -------------------------
    idx_nodes = []
    filtered_names = set()
    for n in walk_no_nested(f.node):
        if isinstance(n, ast.Assign) and len(n.targets) == 1 and isinstance(n.targets[0], ast.Name) \
                and isinstance(n.value, ast.Subscript) and isinstance(n.value.slice, ast.Compare):
            filtered_names.add(n.targets[0].id)
    for n in walk_no_nested(f.node):
        if isinstance(n, ast.Subscript) and isinstance(n.ctx, ast.Load) and not isinstance(
                n.slice, (ast.Compare, ast.Slice)):
            base = n.value
            if (isinstance(base, ast.Name) and base.id in filtered_names) or (
                    isinstance(base, ast.Subscript) and isinstance(base.slice, ast.Compare)):
                idx_nodes.append(n)
    for n in idx_nodes:
        base = canon.c(n.value, fr)
        guards = [Lit('empty(%s)' % base, False), Lit('truthy(%s.size)' % base, True),
                  Lit('0 == %s.size' % base, False), Lit('- %s.size <= 0' % base, False),
                  Lit('truthy(%s)' % base, True)]
        ok_all, witness = True, None
        for p in paths:
            for i, e in enumerate(p.events):
                if stmt_contains(e, lambda x: x is n):
                    must = path_must(logic, p, i)
                    if not any(g in must for g in guards):
                        ok_all, witness = False, p
                    break
        what = 'index into filtered sample %s guarded by non-emptiness' % base
        if ok_all:
            res.ok('C15.Y3', f, n, what)
        else:
            res.bad('C15.Y3', f, n, '%s unguarded' % short(ast.unparse(n), 60),
                    'the filtered sample can be empty (runtime 0, or no draw above the mean) and '
                    'indexing it raises IndexError: the delay model fails',
                    path=witness.describe())
    # ---- Y4 / prob gate in generate_delay ------------------------------------
    g = repo.func('DelayModel.generate_delay')
    gf = Frame(g)
    gpaths = cached_paths(g)
    res.analysed(g, len(gpaths))
    arg = g.params[1]
    zero = Lit('0 == DelayModel.degree.value', True)
    n_zero = 0
    for p in gpaths:
        must = path_must(logic, p)
        if zero in must:
            n_zero += 1
            drew = any(stmt_contains(e, lambda x: isinstance(x, ast.Call) and call_name(x) in (
                'default_rng', '_create_random_value_from_runtime')) for e in p.events)
            ret = [e.node for e in p.events if e.kind == 'stmt' and isinstance(e.node, ast.Return)]
            rv = ret[-1].value if ret else None
            if isinstance(rv, ast.Name):
                idx = [i for i, e in enumerate(p.events) if e.node is ret[-1]][0]
                rv = reaching_value(p, idx, rv.id) or rv
            val = canon.c(rv, gf) if rv is not None else None
            ok = (not drew) and val == arg
            (res.ok if ok else res.bad)(
                'C15.Y4', g, ret[-1] if ret else g.node, 'degree 0: return the runtime, no draw',
                'ok' if ok else 'with degree NONE the model returns %s%s' % (val, ' after a draw' if drew else ''))
    if not n_zero:
        res.bad('C15.Y4', g, g.node, 'no degree==0 identity path',
                'generate_delay has no path that returns the runtime unchanged for degree NONE')
    # every call of the sampler is gated by random() < prob, and the result only via int()
    for p in gpaths:
        for i, e in enumerate(p.events):
            if stmt_contains(e, lambda x: isinstance(x, ast.Call) and call_name(x) == '_create_random_value_from_runtime'):
                must = path_must(Logic(pcanon), p, i, depth=1)
                gate = [l for l in must if 'random()' in l.atom and 'DelayModel.prob' in l.atom]
                fresh = [l for l in gate if 'default_rng(DelayModel.seed).random()' in l.atom]
                if gate and not fresh:
                    res.bad('C15.Y1', g, e.node, 'probability draw %s' % short(gate[0].atom, 70),
                            'the "does a delay occur" draw does not come from a generator freshly seeded with '
                            'self.seed for this call (%s): a second call with the same seed and arguments gives '
                            'a different answer' % short(gate[0].atom, 90))
                elif fresh:
                    res.ok('C15.Y1', g, e.node, 'probability draw from default_rng(self.seed), created per call')
                ok = bool(gate)
                (res.ok if ok else res.bad)(
                    'C15.Y4', g, e.node, 'sampler called only under random() < prob',
                    'ok' if ok else 'a delay is drawn without the probability gate: probability 0 '
                    'no longer means no delay')
                break
    for r in [n for n in walk_no_nested(g.node) if isinstance(n, ast.Return) and n.value is not None]:
        P = canon.p(r.value, gf)
        alts = set(P.strip('{}').split('|')) if P.startswith('{') else {P}
        okset = {arg, 'int(DelayModel._create_random_value_from_runtime(%s, %s))' % (arg, g.params[2] if len(g.params) > 2 else 'n'),
                 'DelayModel._create_random_value_from_runtime(%s, %s)' % (arg, g.params[2] if len(g.params) > 2 else 'n')}
        ok = alts <= okset
        (res.ok if ok else res.bad)(
            'C15.Y2', g, r, 'generate_delay returns the runtime or the sampled value',
            short(P, 120) if ok else 'generate_delay returns %s: not the runtime or the sampled '
            'lengthened value' % short(P, 160))
    # ---- Y5 ---------------------------------------------------------------
    d = repo.func('Task.do_work')
    dpaths = cached_paths(d)
    res.analysed(d, len(dpaths))
    dfr = Frame(d)
    want = 'Task._calc_task_delay()'
    found = False
    for p in dpaths:
        for i, e in enumerate(p.events):
            if e.kind == 'test':
                for l in logic.must(e.node, e.frame, True):
                    pass
        # literal: duration < total  ==  not (total - duration <= 0)
    flag_sets = [n for n in walk_no_nested(d.node) if isinstance(n, ast.Assign) and any(
        isinstance(t, ast.Attribute) and t.attr == 'delay_flag' for t in n.targets)
        and isinstance(n.value, ast.Constant) and n.value.value is True]
    plogic = Logic(ProvCanon(repo))
    # every path on which the delay model lengthened the task (duration < total) raises the flag
    n_len = 0
    badp = undecided = None
    ids = {id(n) for n in flag_sets}
    for p in dpaths:
        if p.exit == 'raise':
            continue
        must = {(l.atom, l.pol) for l in path_must(plogic, p)}
        if LENGTHENED in must:
            n_len += 1
            if not any(id(e.node) in ids for e in p.events):
                badp = p
        elif (LENGTHENED[0], not LENGTHENED[1]) not in must and undecided is None:
            undecided = p        # neither `duration < total` nor its negation decided on this path
    if n_len and badp is None and undecided is not None:
        res.bad('C15.Y5', d, d.node, 'a path never compares the duration with the delayed duration',
                'on some path through do_work the task\'s duration as it stands at that point (it may just have been '
                'recomputed for the machine) is never compared with the value of _calc_task_delay(): a delay added on '
                'that path is not flagged (a copy of the duration taken before it is recomputed is not the duration)',
                path=undecided.describe())
    elif n_len and badp is None:
        res.ok('C15.Y5', d, flag_sets[0] if flag_sets else d.node, 'delay_flag = True on every path with duration < _calc_task_delay()',
               '%d paths' % n_len)
    elif not n_len:
        res.bad('C15.Y5', d, d.node, 'no delay_flag = True under duration < total',
                'do_work no longer flags a task whose actual duration exceeds its nominal duration')
    else:
        res.bad('C15.Y5', d, d.node, 'lengthened path without flag',
                'a path with duration < total does not set delay_flag', path=badp.describe())
    u = repo.func('Scheduler._update_current_plan')
    upaths = cached_paths(u)
    res.analysed(u, len(upaths))
    n_branch = 0
    bad = None
    for p in upaths:
        must = path_must(logic, p)
        atoms = {(l.atom, l.pol) for l in must}
        fin = any(a.endswith('.task_status') and 'TaskStatus.FINISHED ==' in a and pol for a, pol in atoms)
        flagged = any(a.startswith('truthy(') and a.endswith('.delay_flag)') and pol for a, pol in atoms)
        if fin and flagged:
            n_branch += 1
            sets = any(e.kind == 'stmt' and isinstance(e.node, ast.Assign) and
                       canon.c(e.node.targets[0], e.frame) == 'Scheduler.schedule_status' and
                       canon.c(e.node.value, e.frame) == 'ScheduleStatus.DELAYED' for e in p.events)
            if not sets:
                bad = p
    def general_guard():
        """number of DELAYED assignments whose guard is exactly "some task of the plan is FINISHED
        and flagged", None when one is not"""
        # any other arrangement (flagged finished tasks gathered first, loops over a filtered copy,
        # a test of "is the collection empty"): the guard of the DELAYED assignment, read off its
        # enclosing loops and conditions, must be  exists t in plan.tasks: FINISHED(t) and t.delay_flag
        cnt = [0, 0]
        from ..index import guard_stack
        from ..paths import assigned_names
        ufr = Frame(u)
        ppc = ProvCanon(repo)
        T = '%s.tasks' % u.params[1]
        E = 'elem(%s)' % T
        want = {Lit('TaskStatus.FINISHED == %s.task_status' % E, True), Lit('truthy(%s.delay_flag)' % E, True)}

        def comp_of(e, d=0):
            """(iterable string, {literals}) when e is (a local naming) the plan's tasks or a filtered
            comprehension over them whose elements are the tasks themselves"""
            if d > 4:
                return None
            if ppc.p(e, ufr) == T:
                return T, set()
            parts = ppc.seq_parts(e, ufr)
            if parts is None and isinstance(e, ast.Name):
                defs = assigned_names(u).get(e.id, [])
                if len(defs) == 1 and isinstance(defs[0], ast.Assign):
                    return comp_of(defs[0].value, d + 1)
                return None
            if parts is None:
                return None
            elt, it, conds, lvars = parts
            inner = comp_of(it, d + 1)
            if inner is None:
                return None
            lits = set(inner[1])
            for c_, pol in conds:
                lits |= plogic.must(c_, ufr, pol)
            return inner[0], lits
        for n in walk_no_nested(u.node):
            if isinstance(n, ast.Assign) and canon.c(n.targets[0], ufr) == 'Scheduler.schedule_status' and \
                    canon.c(n.value, ufr) == 'ScheduleStatus.DELAYED':
                gs = guard_stack(u.node, n) or []
                lits = set()
                quantified = False
                okg = True
                for g in gs:
                    if g[0] == 'for':
                        c = comp_of(g[1].iter)
                        from ..index import loop_leaves_early as _lle
                        if c is None or _lle(g[1]):
                            okg = False      # (a loop that stops early does not look at every task)
                        else:
                            quantified = True
                            lits |= c[1]
                    elif g[0] == 'while':
                        okg = False
                    else:
                        _, t, pol = g
                        shape = plogic._emptiness_shape(t, ufr, pol)
                        c = comp_of(shape[0]) if shape is not None and shape[1] is False else None
                        if c is not None:
                            quantified = True          # "the filtered collection is not empty"
                            lits |= c[1]
                        else:
                            lits |= plogic.must(t, ufr, pol)
                if okg and quantified and lits == want:
                    cnt[0] += 1
                else:
                    cnt[1] += 1
        return None if cnt[1] or not cnt[0] else cnt[0]
    if not n_branch:
        g_ = general_guard()
        if g_:
            n_branch += g_
        else:
            bad = upaths[0]
    else:
        # path mode found the branch: it must be reached for EVERY task of the plan -- the loop
        # around it runs over the plan's tasks and is not left early (a task behind the exit would
        # be dropped from the plan without its flag ever being looked at)
        from ..index import guard_stack, loop_leaves_early
        ufr = Frame(u)
        ppc = ProvCanon(repo)
        T = '%s.tasks' % u.params[1]
        for n in walk_no_nested(u.node):
            if isinstance(n, ast.Assign) and canon.c(n.targets[0], ufr) == 'Scheduler.schedule_status' and \
                    canon.c(n.value, ufr) == 'ScheduleStatus.DELAYED':
                loops = [g[1] for g in (guard_stack(u.node, n) or []) if g[0] == 'for']
                whiles = [g for g in (guard_stack(u.node, n) or []) if g[0] == 'while']
                # conditions (guard clauses included) the whole examination stands under: only "the plan
                # has tasks at all" is harmless
                outer = []
                for g in (guard_stack(u.node, n) or []):
                    if g[0] != 'if':
                        break
                    outer.append(g)
                if not loops:
                    outer = []          # (no loop around the report: the general guard analysis below judges it)
                for g in outer:
                    at = {(l.atom, l.pol) for l in plogic.must(g[1], ufr, g[2])}
                    if at and at <= {('truthy(%s)' % T, True), ('len(%s) <= 0' % T, False)}:
                        continue
                    bad = upaths[0]
                    res.bad('C15.Y5', u, n, 'the examination of finished tasks is skipped under a condition',
                            'the loop that reports DELAYED for finished flagged tasks only runs when %s%s: a flagged task that '
                            'finishes while that does not hold (e.g. the LAST task of the workflow, when nothing remains) is '
                            'dropped from the plan without the delay ever being reported' % (
                                '' if g[2] else 'not ', short(ppc.p(g[1], ufr), 80)))
                    break
                if (len(loops) != 1 or whiles or ppc.p(loops[0].iter, ufr) != T or loop_leaves_early(loops[0])) \
                        and not general_guard():
                    bad = upaths[0]
                    res.bad('C15.Y5', u, n, 'DELAYED is not examined for every task of the plan',
                            'the finished-and-flagged test is made inside a loop over %s that %s: a flagged task that '
                            'finishes behind the point where the loop stops is dropped from the plan without the delay '
                            'ever being reported' % (
                                short(ppc.p(loops[0].iter, ufr)) if loops else 'nothing',
                                'can be left early' if loops and loop_leaves_early(loops[0]) else 'is not the plan\'s task list'))
    if n_branch and bad is None:
        res.ok('C15.Y5', u, u.node, 'finished task with delay_flag => schedule_status = DELAYED',
               '%d paths' % n_branch)
    else:
        res.bad('C15.Y5', u, u.node, 'finished+flagged task does not set DELAYED',
                'the scheduler does not report a delayed schedule when a flagged task completes',
                path=bad.describe() if bad else None)
    # the flag, once raised, survives until the scheduler reads it: after construction nothing
    # writes anything but True into it (a no-op self-assignment aside)
    res.rule('C15.Y6', 'delay_flag is only ever raised: every write outside Task.__init__ assigns True')
    n_w = 0
    for g in repo.all_functions():
        if g.module.name.startswith(('topsim.utils', 'topsim.recipes')):
            continue
        for n in walk_no_nested(g.node):
            tg = []
            if isinstance(n, ast.Assign):
                tg = [(t, n.value) for t in n.targets]
            elif isinstance(n, (ast.AugAssign, ast.AnnAssign)) and getattr(n, 'value', None) is not None:
                tg = [(n.target, None if isinstance(n, ast.AugAssign) else n.value)]
            for t, v in tg:
                if not (isinstance(t, ast.Attribute) and t.attr == 'delay_flag'):
                    continue
                n_w += 1
                what = '%s writes delay_flag (line %d)' % (g.qual, n.lineno)
                if isinstance(v, ast.Constant) and v.value is True:
                    res.ok('C15.Y6', g, n, what, 'raises the flag')
                elif g.name == '__init__' and isinstance(v, ast.Constant) and v.value is False:
                    res.ok('C15.Y6', g, n, what, 'initial value')
                elif v is not None and ast.dump(v) == ast.dump(ast.Attribute(value=t.value, attr='delay_flag', ctx=ast.Load())):
                    res.ok('C15.Y6', g, n, what, 'no-op self-assignment')
                elif isinstance(v, ast.BoolOp) and isinstance(v.op, ast.Or) and any(
                        ast.dump(x) == ast.dump(ast.Attribute(value=t.value, attr='delay_flag', ctx=ast.Load()))
                        for x in v.values):
                    res.ok('C15.Y6', g, n, what, 'monotone: flag or <condition>')
                else:
                    res.bad('C15.Y6', g, n, what,
                            '%s overwrites delay_flag with %s: a flag raised by do_work because the delay model '
                            'lengthened the task can be lowered again before the scheduler reads it, and the '
                            'delayed schedule is never reported' % (g.qual, short(ast.unparse(v) if v is not None else 'an update')))
    if not n_w:
        raise AnalysisError('no write of delay_flag found')
    # the plan update is called each scheduling round, and the status is reported
    a = repo.func('Scheduler.allocate_tasks')
    called = [n for n in walk_no_nested(a.node) if isinstance(n, ast.Call) and call_name(n) == '_update_current_plan']
    (res.ok if called else res.bad)('C15.Y5', a, called[0] if called else a.node,
                                    '_update_current_plan is called in the allocation loop',
                                    'ok' if called else 'the plan update (which reports delays) is never called')
    t = repo.func('Scheduler.to_df')
    reads = any(isinstance(n, ast.Attribute) and n.attr == 'schedule_status' for n in ast.walk(t.node))
    (res.ok if reads else res.bad)('C15.Y5', t, t.node, 'to_df reports schedule_status',
                                   'ok' if reads else 'the schedule status is no longer reported')


# duration < total  ==  not (total - duration <= 0), total = _calc_task_delay()
LENGTHENED = lit_lt('Task.duration', 'Task._calc_task_delay()').key()
