"""C19 -- idle/empty/finished queries tell the truth.

Rule K (only-when): for each of the four actor queries, every outcome path that
returns a true value asserts every required atom of that query (boolean
skeleton, sa/skel.py).  Rule F (exactly-when) for Simulation.is_finished: a true
result asserts all four actor queries, a false result refutes at least one.
"""
from ..index import AnalysisError
from ..norm import Canon, Logic, Lit
from ..skel import outcomes

FLOORS = {'C19.K': 4, 'C19.F': 1}


def alt(*lits):
    return list(lits)


def empty(loc):
    return alt(Lit('empty(%s)' % loc, True), Lit('truthy(%s)' % loc, False))


def eq(a, b):
    a, b = sorted([a, b])
    return alt(Lit('%s == %s' % (a, b), True),
               )


REQUIRED = {
    'Cluster.is_idle': [
        ('no task running', empty("Cluster._tasks['running']")),
        ('no machine on workflow work', empty("Cluster._resources['occupied']")),
        ('no machine on ingest', empty("Cluster._resources['ingest']")),
    ],
    'Buffer.is_empty': [
        ('hot tier at full free capacity',
         eq('HotBuffer.current_capacity', 'HotBuffer.total_capacity') + [
             Lit('- HotBuffer.current_capacity + HotBuffer.total_capacity <= 0', True)]),
        ('cold tier at full free capacity',
         eq('ColdBuffer.current_capacity', 'ColdBuffer.total_capacity') + [
             Lit('- ColdBuffer.current_capacity + ColdBuffer.total_capacity <= 0', True)]),
    ],
    'Scheduler.is_idle': [
        ('no observation queued', empty('Scheduler.observation_queue')),
    ],
    'Telescope.is_idle': [
        ('every observation finished', [
            Lit('forall $1 in Instrument.observations: RunStatus.FINISHED == $1.status', True),
            Lit('empty(Instrument.observations)', True)]),
        ('no arrays in use', eq('0', 'Instrument.telescope_use') + [
            Lit('truthy(Instrument.telescope_use)', False),
            Lit('Instrument.telescope_use <= 0', True)]),
    ],
}

SUBQUERIES = ['Buffer.is_empty', 'Cluster.is_idle', 'Scheduler.is_idle', 'Telescope.is_idle']


def nonempty_iterables(repo):
    """containers built from a non-empty display by the config parser"""
    return {'%s.%s' % k for k, v in repo.elem_types.items() if v}


def _quant_norm(l):
    """forall x in I: <lit>  -- rename the bound variable to its bare name"""
    return l


def satisfied(lits, alternatives):
    keys = {(_strip(l.atom), l.pol) for l in lits}
    return any((_strip(a.atom), a.pol) in keys for a in alternatives)


def _strip(atom):
    # bound variables of inlined frames print as 'Qual#name'
    import re
    return re.sub(r'[\w.]+#', '', atom)


def check(repo, res, tier):
    canon = Canon(repo)
    logic = Logic(canon)
    res.rule('C19.K', 'every true-returning path of an actor query asserts all required atoms')
    res.rule('C19.F', 'Simulation.is_finished is true iff all four actor queries are true')
    res.assumptions += [
        'one hot and one cold tier (Config.parse_buffer_config returns one-element dicts)',
        'closed world: only topsim code mutates simulator state']
    from . import c06
    from .common import borrow
    res.rule('C19.W', 'adopted C06.W4: an ingest task lasts its own observation\'s duration -- the cluster query answers from the '
                      'ingest pool and the running tasks, which are only right while ingest tasks end when their observation does')
    borrow(repo, res, tier, c06, {'C06.W4'}, 'C19.W')
    nonempty = nonempty_iterables(repo)
    for q, reqs in REQUIRED.items():
        f = repo.func(q)
        outs = outcomes(logic, f)
        res.analysed(f, len(outs))
        trues = []
        for o in outs:
            if any(l.atom.startswith('empty(') and l.pol and
                   l.atom[6:-1] in nonempty for l in o.lits):
                continue    # zero-iteration path over a container that is never empty
            if o.result == 'T':
                trues.append(o)
            elif o.result not in ('F', 'raise'):
                raise AnalysisError('%s returns a non-boolean on some path' % q)
        if not trues:
            res.bad('C19.K', f, f.node, 'never true', '%s can never report idle' % q)
            continue
        for name, alts in reqs:
            bad = [o for o in trues if not satisfied(o.lits, alts)]
            what = '%s true => %s' % (q, name)
            if bad:
                o = bad[0]
                res.bad('C19.K', f, o.node or f.node, what,
                        '%s can report idle while "%s" does not hold: a true result is '
                        'reached under [%s] which does not assert %s' % (
                            q, name, ' & '.join(map(repr, o.lits)) or 'no condition',
                            ' | '.join(map(repr, alts))),
                        path=o.path.describe())
            else:
                res.ok('C19.K', f, f.node, what, '%d true-returning paths' % len(trues))
    # the queries are pure: asking does not change the answer
    from .purity import QUERIES, check_pure
    res.rule('C19.P', 'state queries are side-effect free')
    check_pure(repo, res, 'C19.P', QUERIES, 'asking the question changes the state it reports on')
    # Simulation.is_finished
    f = repo.func('Simulation.is_finished')
    outs0 = outcomes(logic, f, depth=0)
    res.analysed(f, len(outs0))
    call_atoms = {}
    for sq in SUBQUERIES:
        cls, m = sq.split('.')
        cn = canon.class_name(cls)
        call_atoms[sq] = 'truthy(%s.%s())' % (cn, m)
    all_atoms = {l.atom for o in outs0 for l in o.lits}
    if all_atoms <= set(call_atoms.values()):
        for sq, atom in call_atoms.items():
            what = 'is_finished true => %s' % sq
            bad = [o for o in outs0 if o.result == 'T' and Lit(atom, True) not in o.lits]
            if bad:
                res.bad('C19.F', f, bad[0].node or f.node, what,
                        'Simulation.is_finished can be true without %s being true' % sq,
                        path=bad[0].path.describe())
            else:
                res.ok('C19.F', f, f.node, what)
        badf = [o for o in outs0 if o.result == 'F' and not any(
            Lit(a, False) in o.lits for a in call_atoms.values())]
        what = 'is_finished false => some actor query false'
        if badf:
            res.bad('C19.F', f, badf[0].node or f.node, what,
                    'Simulation.is_finished can be false although all four queries are true',
                    path=badf[0].path.describe())
        else:
            res.ok('C19.F', f, f.node, what)
        if not any(o.result == 'T' for o in outs0):
            res.bad('C19.F', f, f.node, 'never true', 'Simulation.is_finished is never true')
    else:
        # the queries were inlined or replaced: require the union of their atoms
        outs = outcomes(logic, f, depth=2)
        trues = [o for o in outs if o.result == 'T' and not any(
            l.atom.startswith('empty(') and l.pol and l.atom[6:-1] in nonempty for l in o.lits)]
        res.note('is_finished is not a pure combination of the four query calls; '
                 'checked against the union of required atoms (only-when direction)')
        for q, reqs in REQUIRED.items():
            for name, alts in reqs:
                bad = [o for o in trues if not satisfied(o.lits, alts)]
                what = 'is_finished true => %s' % name
                if bad or not trues:
                    res.bad('C19.F', f, f.node, what,
                            'Simulation.is_finished can be true while "%s" does not hold' % name)
                else:
                    res.ok('C19.F', f, f.node, what)
