"""Helpers shared by the property rule modules."""
import ast

from ..index import AnalysisError, is_spawn, walk_no_nested
from ..paths import Frame, bind_args, cached_paths, function_paths, assigned_names


def calls_to(func, pred):
    """ast.Call nodes in func (not nested defs) satisfying pred(call)."""
    return [n for n in walk_no_nested(func.node) if isinstance(n, ast.Call) and pred(n)]


def call_name(call):
    fn = call.func
    if isinstance(fn, ast.Name):
        return fn.id
    if isinstance(fn, ast.Attribute):
        return fn.attr
    return None


def bound_args(repo, callee_qual, call, frame):
    """param -> ast expr for a constructor/method call (defaults excluded)."""
    cal = repo.func(callee_qual)
    b = bind_args(cal, call, frame, bound_self=(ast.Name(id='self', ctx=ast.Load()), frame))
    return {k: v[0] for k, v in b.items() if v[1] is not None}


def enclosing_loops(func, node):
    """For/While nodes of func that contain `node`, outermost first."""
    out = []

    def rec(n, stack):
        if n is node:
            out.extend(stack)
            return True
        for c in ast.iter_child_nodes(n):
            if isinstance(c, (ast.FunctionDef, ast.AsyncFunctionDef, ast.ClassDef)) and c is not func.node:
                continue
            ns = stack + [n] if isinstance(n, (ast.For, ast.While, ast.AsyncFor)) else stack
            if rec(c, ns):
                return True
        return False
    rec(func.node, [])
    return out


def iteration_segments(func, loop):
    """Event lists of one iteration of `loop` on every path of func:
    (events between the loop head and its back edge or the exit, how)
    with how in back / break / return / raise / cycle."""
    segs = []
    seen = set()
    for p in cached_paths(func):
        evs = p.events
        for i, e in enumerate(evs):
            if e.kind in ('for', 'loop') and e.node is loop:
                j = i + 1
                how = None
                while j < len(evs):
                    x = evs[j]
                    if x.kind == 'back' and x.node is loop:
                        how = 'back'
                        break
                    if x.kind == 'exit':
                        how = x.extra
                        break
                    j += 1
                if how is None:
                    how = 'break'
                    # leaving the loop by break: cut at the first event that is
                    # lexically outside the loop
                    j = i + 1
                    inside = {id(n) for n in ast.walk(loop)}
                    while j < len(evs) and (evs[j].node is None or id(evs[j].node) in inside):
                        j += 1
                seg = evs[i + 1:j]
                key = (tuple((id(x.node), x.kind, x.pol) for x in seg), how)
                if key not in seen:
                    seen.add(key)
                    segs.append((seg, how))
    return segs


def node_in(node, root):
    return any(n is node for n in ast.walk(root))


def event_of(path, node):
    """index of the event whose statement/test contains `node`"""
    for i, e in enumerate(path.events):
        if e.node is not None and e.kind in ('stmt', 'test') and node_in(node, _root(e)):
            return i
    return -1


def _root(e):
    if e.kind == 'stmt' and e.extra == 'with':
        return ast.Module(body=[], type_ignores=[])
    return e.node


def short(s, n=110):
    s = ' '.join(str(s).split())
    return s if len(s) <= n else s[:n - 3] + '...'


def _is_chain(e):
    """x.a.b['k'] : names, attributes and constant subscripts only"""
    while isinstance(e, (ast.Attribute, ast.Subscript)):
        if isinstance(e, ast.Subscript) and not isinstance(e.slice, (ast.Constant, ast.Name)):
            return False
        e = e.value
    return isinstance(e, ast.Name)


def path_must(logic, path, upto=None, depth=1):
    """Literals certainly established by the branch decisions before event
    index `upto` (later writes to the tested locations are not tracked; the
    rules that use this are applied to small functions where the tested
    locations are not written in between -- each rule says so)."""
    out = set()
    evs = path.events if upto is None else path.events[:upto]
    from ..skel import _track_consts, _subst
    cenvs = {}        # per frame: boolean flag locals as they were last assigned on this path
    alias = {}        # per frame: local -> the attribute/subscript chain it was last bound to on this path
    for e in evs:
        if e.kind == 'stmt' and e.node is not None and isinstance(e.node, (ast.Assign, ast.AugAssign, ast.AnnAssign)):
            _track_consts(e.node, cenvs.setdefault(id(e.frame), {}))
            al = alias.setdefault(id(e.frame), {})
            n_ = e.node
            tgts = n_.targets if isinstance(n_, ast.Assign) else [n_.target]
            for t_ in tgts:
                for x in ast.walk(t_):
                    if isinstance(x, ast.Name):
                        al.pop(x.id, None)
                    elif isinstance(x, ast.Attribute) and isinstance(x.ctx, ast.Store):
                        # the location a local stood for is rebound: the local keeps the old object
                        for k in [k for k, v in al.items() if any(
                                isinstance(y, ast.Attribute) and y.attr == x.attr for y in ast.walk(v))]:
                            del al[k]
            if isinstance(n_, ast.Assign) and len(n_.targets) == 1 and isinstance(n_.targets[0], ast.Name) \
                    and isinstance(n_.value, (ast.Attribute, ast.Subscript)) and _is_chain(n_.value) \
                    and n_.targets[0].id not in e.frame.aliases and not any(
                        isinstance(y, ast.Name) and y.id == n_.targets[0].id for y in ast.walk(n_.value)):
                al[n_.targets[0].id] = _subst(n_.value, al)
        if e.kind == 'test':
            node = _subst(e.node, cenvs.get(id(e.frame)) or {})
            node = _subst(node, alias.get(id(e.frame)) or {})
            if isinstance(node, ast.Constant):
                continue
            alts = logic.dnf(node, e.frame, e.pol, depth=depth)
            if alts:
                common = set(alts[0])
                for a in alts[1:]:
                    common &= set(a)
                out |= common
    return out


def events_with(path, pred):
    return [(i, e) for i, e in enumerate(path.events) if pred(e)]


def stmt_contains(e, pred):
    """does the stmt/test event contain an ast node satisfying pred"""
    if e.node is None or e.kind not in ('stmt', 'test'):
        return False
    if e.kind == 'stmt' and e.extra == 'with':
        roots = [it.context_expr for it in e.node.items]
    else:
        roots = [e.node]
    for r in roots:
        for n in ast.walk(r):
            if pred(n):
                return True
    return False


def reaching_value(path, upto, name):
    """RHS of the last assignment to local `name` before event index upto on
    this path (None when the name is not assigned on the path)."""
    val = None
    for e in path.events[:upto]:
        if e.kind == 'stmt' and isinstance(e.node, ast.Assign):
            for t in e.node.targets:
                if isinstance(t, ast.Name) and t.id == name:
                    val = e.node.value
                elif isinstance(t, (ast.Tuple, ast.List)):
                    for j, x in enumerate(t.elts):
                        if isinstance(x, ast.Name) and x.id == name:
                            v = e.node.value
                            val = v.elts[j] if isinstance(v, (ast.Tuple, ast.List)) and j < len(v.elts) else v
        elif e.kind == 'stmt' and isinstance(e.node, ast.AugAssign) and isinstance(
                e.node.target, ast.Name) and e.node.target.id == name:
            val = e.node
    return val


_BORROW_CACHE = {}


def borrow(repo, res, tier, module, rules, prefix, keep=None):
    """Run another property's rules and adopt the instances/findings of the given
    rule ids under `prefix` (e.g. C18.V3 -> C07.B7[C18.V3]).  Used where one
    mechanism carries two properties; the rule text stays with its owner.
    `keep(finding)` restricts the adopted findings to the kinds that also break the
    borrower's property (the instances are adopted all the same)."""
    from ..report import Result, Finding, Instance
    import copy as _copy
    if getattr(res, '_no_borrow', False):
        return          # only the lender's own rules are wanted (and borrowing chains may be cyclic)
    key = (id(repo), module.__name__, tier)
    tmp = _BORROW_CACHE.get(key)
    if tmp is None:
        tmp = Result(res.prop)
        tmp._no_borrow = True
        module.check(repo, tmp, tier)
        _BORROW_CACHE[key] = tmp
    for i0 in tmp.instances:
        if i0.rule in rules:
            i = _copy.copy(i0)
            i.rule = '%s[%s]' % (prefix, i0.rule)
            res.instances.append(i)
    for f0 in tmp.findings:
        if f0.rule in rules and (keep is None or keep(f0)):
            f = _copy.copy(f0)
            f.rule = '%s[%s]' % (prefix, f0.rule)
            f.prop = res.prop
            if f.key not in {x.key for x in res.findings}:
                res.findings.append(f)
    res.functions |= tmp.functions


def stale_reads(func, loop):
    """Locals that are assigned somewhere inside `loop` but, on some path through one
    iteration, are read before being assigned in that iteration: the value then
    comes from the previous iteration (or from before the loop).  Returns
    [(name, reading stmt node)]; `x += ..` accumulators are not counted."""
    inside = [n for n in ast.walk(loop)]
    assigned = {}
    for n in inside:
        if isinstance(n, ast.Assign):
            for t in n.targets:
                for x in ast.walk(t):
                    if isinstance(x, ast.Name) and isinstance(x.ctx, ast.Store):
                        assigned.setdefault(x.id, []).append(n)
        elif isinstance(n, (ast.For, ast.comprehension)) and n is not loop:
            for x in ast.walk(n.target):
                if isinstance(x, ast.Name):
                    assigned.setdefault(x.id, []).append(n)
    loopvars = {x.id for x in ast.walk(loop.target) if isinstance(x, ast.Name)} if isinstance(
        loop, (ast.For, ast.AsyncFor)) else set()
    out = []
    seen = set()
    for seg, how in iteration_segments(func, loop):
        done = set(loopvars)
        for e in seg:
            if e.kind in ('for', 'for0') and e.node is not loop:
                for x in ast.walk(e.node.iter):
                    if isinstance(x, ast.Name) and isinstance(x.ctx, ast.Load) and x.id in assigned \
                            and x.id not in done and (x.id, id(e.node)) not in seen:
                        seen.add((x.id, id(e.node)))
                        out.append((x.id, e.node))
                if e.kind == 'for':
                    for x in ast.walk(e.node.target):
                        if isinstance(x, ast.Name):
                            done.add(x.id)
                continue
            if e.kind not in ('stmt', 'test') or e.node is None:
                continue
            node = e.node
            reads = []
            writes = []
            if isinstance(node, ast.Assign):
                reads = [x for x in ast.walk(node.value) if isinstance(x, ast.Name)]
                for t in node.targets:
                    for x in ast.walk(t):
                        if isinstance(x, ast.Name) and isinstance(x.ctx, ast.Store):
                            writes.append(x.id)
                        elif isinstance(x, ast.Name):
                            reads.append(x)
            elif isinstance(node, ast.AugAssign):
                reads = [x for x in ast.walk(node.value) if isinstance(x, ast.Name)]
            else:
                reads = [x for x in ast.walk(node) if isinstance(x, ast.Name) and isinstance(x.ctx, ast.Load)]
            comp_bound = {y.id for c in ast.walk(node) if isinstance(c, ast.comprehension)
                          for y in ast.walk(c.target) if isinstance(y, ast.Name)}
            for x in reads:
                if x.id in assigned and x.id not in done and x.id not in comp_bound and \
                        (x.id, id(node)) not in seen:
                    seen.add((x.id, id(node)))
                    out.append((x.id, node))
            done.update(writes)
    return out


def path_affine_env(canon, path, frame, upto=None):
    """name -> Affine for the locals of `frame` following one path (Assign / AugAssign of
    Name targets, evaluated where they occur)."""
    from ..norm import affine, Affine
    env = {}
    evs = path.events if upto is None else path.events[:upto]
    for e in evs:
        if e.kind != 'stmt' or not (e.frame is frame or (e.frame.func is frame.func and e.frame.depth == frame.depth == 0)):
            continue
        n = e.node
        if isinstance(n, ast.Assign) and len(n.targets) == 1 and isinstance(n.targets[0], ast.Name):
            env[n.targets[0].id] = affine(canon, n.value, frame, env)
        elif isinstance(n, ast.AugAssign) and isinstance(n.target, ast.Name) and isinstance(n.op, (ast.Add, ast.Sub)):
            cur = env.get(n.target.id)
            if cur is None:
                cur = Affine({n.target.id: 1})
            d = affine(canon, n.value, frame, env)
            env[n.target.id] = cur + (d if isinstance(n.op, ast.Add) else d.scale(-1))
    return env


def counting_parts(func, name):
    """If local `name` is a counter -- every plain assignment sets it to 0 and it is changed
    only by one `+= 1` inside a for-loop -- return (loop node, [(cond ast, polarity)]) with the
    conditions between the loop head and the increment; else None."""
    inits = [n for n in walk_no_nested(func.node) if isinstance(n, ast.Assign) and any(
        isinstance(t, ast.Name) and t.id == name for t in n.targets)]
    incs = [n for n in walk_no_nested(func.node) if isinstance(n, ast.AugAssign) and isinstance(
        n.target, ast.Name) and n.target.id == name]
    if not inits or len(incs) != 1:
        return None
    if not all(isinstance(n.value, ast.Constant) and n.value.value == 0 for n in inits):
        return None
    inc = incs[0]
    if not (isinstance(inc.op, ast.Add) and isinstance(inc.value, ast.Constant) and inc.value.value == 1):
        return None
    from ..index import guard_stack
    ns = guard_stack(func.node, inc)
    if not ns:
        return None
    fors = [i for i, x in enumerate(ns) if x[0] == 'for']
    if not fors or any(x[0] == 'while' for x in ns[fors[-1] + 1:]):
        return None
    from ..index import loop_leaves_early
    if loop_leaves_early(ns[fors[-1]][1]):
        return None
    return ns[fors[-1]][1], [(x[1], x[2]) for x in ns[fors[-1] + 1:] if x[0] == 'if']


def resolve_name_chain(func, node):
    """follow `x = y` single-assignment copies from a Name to the name that is really defined"""
    seen = set()
    while isinstance(node, ast.Name) and node.id not in seen:
        seen.add(node.id)
        defs = assigned_names(func).get(node.id, [])
        if len(defs) == 1 and isinstance(defs[0], ast.Assign) and len(defs[0].targets) == 1 and isinstance(
                defs[0].targets[0], ast.Name) and isinstance(defs[0].value, ast.Name):
            node = defs[0].value
        else:
            break
    return node


def returned_affine(canon, func, frame=None):
    """The value returned by `func` as one Affine, judged over its acyclic paths: every path's
    returned expression is evaluated in that path's environment of locals; paths that return
    the same form merge; two forms X, Y selected by the order test between them merge to
    max(X, Y) / min(X, Y).  None when the paths do not merge (callers fall back to judging
    each return statement)."""
    from ..norm import affine, affine_cmp, minmax_term, Affine
    from ..paths import cached_paths, feasible
    frame = frame or Frame(func)
    cases = []
    for p in cached_paths(func):
        if p.exit == 'raise':
            continue
        if p.exit != 'return':
            return None
        env, lits, val = {}, set(), None
        for e in p.events:
            n = e.node
            if e.kind == 'test' and isinstance(n, ast.Compare) and len(n.ops) == 1:
                op = {ast.Lt: '<', ast.LtE: '<=', ast.Gt: '>', ast.GtE: '>='}.get(type(n.ops[0]))
                c = affine_cmp(canon, n.left, op, n.comparators[0], frame, env) if op else None
                if c is not None:
                    lits.add((c[0], c[1] == bool(e.pol)))
            elif e.kind == 'stmt' and isinstance(n, ast.Assign) and len(n.targets) == 1:
                t = n.targets[0]
                if isinstance(t, ast.Name):
                    env[t.id] = affine(canon, n.value, frame, env)
                elif isinstance(t, (ast.Tuple, ast.List)) and isinstance(n.value, (ast.Tuple, ast.List)) \
                        and len(t.elts) == len(n.value.elts) and all(isinstance(x, ast.Name) for x in t.elts):
                    vals = [affine(canon, v, frame, env) for v in n.value.elts]
                    for x, v in zip(t.elts, vals):
                        env[x.id] = v
            elif e.kind == 'stmt' and isinstance(n, ast.AugAssign) and isinstance(n.target, ast.Name):
                env.pop(n.target.id, None)
            elif e.kind == 'stmt' and isinstance(n, ast.Return):
                if n.value is None:
                    return None
                val = affine(canon, n.value, frame, env)
        if val is None:
            return None
        cases.append((val, lits))
    forms = {}
    for v, l in cases:
        forms.setdefault(repr(v), (v, []))[1].append(l)
    if len(forms) == 1:
        return next(iter(forms.values()))[0]
    if len(forms) != 2:
        return None
    (X, lx), (Y, ly) = forms.values()

    def picks(kind, A, B, lits):
        # lits select A as the max (min) of {A, B}
        ba, ab = '%r <= 0' % (B - A,), '%r <= 0' % (A - B,)
        if kind == 'max':
            return (ba, True) in lits or (ab, False) in lits
        return (ab, True) in lits or (ba, False) in lits
    for kind in ('max', 'min'):
        if all(picks(kind, X, Y, l) for l in lx) and all(picks(kind, Y, X, l) for l in ly):
            return minmax_term(kind, [X, Y])
    return None
