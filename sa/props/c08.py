"""C08 -- observations start only when all resources are free (admission structure).

A1 dominance: begin_observation, the ingest spawn and the 'started' event are dominated by
   is_ready(now, capacity) and scheduler.check_ingest_capacity(...); capacity is
   total_arrays - telescope_use computed per observation
A2-A5 predicate content (boolean skeletons): a true verdict implies every required atom
A3r the admitting verdict reserves the ingest machines in the same block
A6 ingest uses exactly `demand` machines
A7 duration: is_finished => now >= ast + duration
A8 observation typestate WAITING -> RUNNING -> FINISHED
A9 telescope_use changes only by +/- demand in begin/finish_observation
"""
import ast

from ..index import AnalysisError, is_spawn, walk_no_nested
from ..norm import Affine, Canon, Lit, Logic, ProvCanon, affine, effects_of_event, path_effects, lit_le, effects_along
from ..paths import Frame, cached_paths
from ..skel import outcomes
from .common import (bound_args, call_name, enclosing_loops, path_must, short, stmt_contains)

FLOORS = {'C08.A1': 3, 'C08.A2': 3, 'C08.A3': 2, 'C08.A4': 2, 'C08.A5': 2, 'C08.A8': 3, 'C08.A9': 2}

USE = 'Instrument.telescope_use'


def has(lits, lit):
    return lit in lits


def check(repo, res, tier):
    canon = Canon(repo)
    pc = ProvCanon(repo)
    logic = Logic(canon)
    plogic = Logic(pc)
    res.rule('C08.A1', 'start of an observation is dominated by is_ready(now, total_arrays - telescope_use) and '
                       'scheduler.check_ingest_capacity; capacity is computed per observation')
    res.rule('C08.A2', 'is_ready true => est <= now, demand <= capacity, status is WAITING')
    res.rule('C08.A3', 'scheduler check true => buffer check, cluster check, pending + demand <= max; and it reserves')
    res.rule('C08.A4', 'cluster check true => len(available) >= demand and len(ingest) + demand <= max')
    res.rule('C08.A5', 'buffer check true => hot.current - rate*duration >= 0 and cold has room for rate*duration')
    res.rule('C08.A6', 'ingest provisions exactly `demand` machines taken from the available pool')
    res.rule('C08.A7', 'is_finished true => now >= ast + duration and not already FINISHED')
    res.rule('C08.A8', 'Observation.status is written WAITING (init) -> RUNNING (under WAITING) -> FINISHED (by finish_observation)')
    res.rule('C08.A9', 'telescope_use += demand only in begin_observation, -= demand only in finish_observation')
    from . import c05
    from .common import borrow as _borrow
    res.rule('C08.A10', 'adopted C05.L1: the scheduler-side count of ingest machines promised to admitted observations is '
                        'released exactly once, when the ingest ends (it is what keeps two admissions of one step under the limit)')
    _borrow(repo, res, tier, c05, {'C05.L1'}, 'C08.A10')
    from . import c06
    res.rule('C08.A11', 'adopted C06.W4: an ingest task -- and with it the ingest machines -- lasts exactly the observation\'s '
                        'duration from the moment it really starts')
    _borrow(repo, res, tier, c06, {'C06.W4'}, 'C08.A11')
    res.assumptions += ['"starts exactly on time when idle" and same-step admissions reading stale pools are not decided',
                        'the admission checks read current pool/buffer sizes; data still to come from running ingests is not reserved (DESIGN.md section 6)']
    a1(repo, res, canon, pc, logic)
    predicates(repo, res, canon, pc, logic, plogic)
    a6(repo, res, canon, pc)
    a8(repo, res, canon, logic)
    from . import c16 as _c16
    res.rule('C08.A13', 'adopted C16.K2: the planned start an observation is held to is the configured one divided by the unit '
                        'factor, not rounded (else it can begin before its planned start)')
    _borrow(repo, res, tier, _c16, {'C16.K2'}, 'C08.A13')
    from . import c13 as _c13
    res.rule('C08.A14', 'the per-observation loop of Telescope.run examines every observation in every step (no break / return: '
                        'the plan need not be sorted by start time)')
    _c13.obs_loop_clause(repo, res, 'C08.A14', 'it is neither started when it falls due nor finished when its duration is over')
    from . import initial
    res.rule('C08.A12', 'initial state: no arrays in use, telescope not in use, no ingest machine reserved, an observation has no actual start time')
    initial.check_values(repo, res, 'C08.A12', [('Telescope', 'telescope_use', 0), ('Telescope', 'telescope_status', False),
                                                ('Scheduler', 'provision_ingest', 0), ('Observation', 'ast', None)],
                         {('Telescope', 'telescope_use'): 'arrays that nobody holds are counted as in use for ever: an observation '
                                                          'that needs all arrays never starts',
                          ('Telescope', 'telescope_status'): 'the telescope never reports idle before its first observation',
                          ('Scheduler', 'provision_ingest'): 'an ingest machine nobody reserved counts against the ingest limit for ever',
                          ('Observation', 'ast'): 'an observation that has not started has a start time: is_finished() turns true '
                                                  'one duration after that time although the observation never ran (and its arrays '
                                                  'are "given back" without ever having been taken)'})
    a9(repo, res, canon)


def asserted_calls(test, pol, flag=None):
    """Call nodes whose truth is asserted when `test` evaluates to `pol`; `flag(name)` gives the
    value a local flag holds at the test (`ok = pred(...)` ... `if ok:`)"""
    if isinstance(test, ast.UnaryOp) and isinstance(test.op, ast.Not):
        return asserted_calls(test.operand, not pol, flag)
    if isinstance(test, ast.BoolOp):
        if isinstance(test.op, ast.And) == pol:
            out = []
            for v in test.values:
                out += asserted_calls(v, pol, flag)
            return out
        return []
    if isinstance(test, ast.Call) and pol:
        return [test]
    if isinstance(test, ast.Name) and flag is not None:
        v = flag(test.id)
        if v is not None and not isinstance(v, ast.Name):
            return asserted_calls(v, pol, None)
    return []


def tests_before(p, i):
    """(test event, resolver of local flags at that test) for the tests of path p before event i"""
    from .common import reaching_value
    for k, x in enumerate(p.events[:i]):
        if x.kind == 'test':
            yield x, (lambda nm, k=k: reaching_value(p, k, nm))


def a1(repo, res, canon, pc, logic):
    t = repo.func('Telescope.run')
    fr = Frame(t)
    paths = cached_paths(t)
    res.analysed(t, len(paths))
    begins = [n for n in walk_no_nested(t.node) if isinstance(n, ast.Call) and call_name(n) == 'begin_observation']
    spawns = [n for n in walk_no_nested(t.node) if is_spawn(n) and call_name(n.args[0]) == 'allocate_ingest']
    if not begins or not spawns:
        res.bad('C08.A1', t, None, 'no begin_observation / ingest spawn in Telescope.run', 'the telescope never starts observations')
        return
    targets = [('begin_observation', begins[0]), ('spawn of allocate_ingest', spawns[0])]
    # the recorded start time is what Observation.is_finished measures from: it is written only for an
    # observation that really starts
    for n in walk_no_nested(t.node):
        if isinstance(n, ast.Assign) and any(isinstance(x, ast.Attribute) and x.attr == 'ast' for x in n.targets):
            targets.append(('the write of the start time (ast)', n))
    for label, node in targets:
        if label.startswith('the write'):
            obs = canon.c([x for x in node.targets if isinstance(x, ast.Attribute) and x.attr == 'ast'][0].value, fr)
        else:
            obs = canon.c(node.args[0] if label.startswith('begin') else node.args[0].args[0], fr)
        ok = True
        why = ''
        wp = None
        for p in paths:
            for i, e in enumerate(p.events):
                if not stmt_contains(e, lambda x: x is node):
                    continue
                ready = cap = None
                checked = False
                for x, flag in tests_before(p, i):
                    for c in asserted_calls(x.node, x.pol, flag):
                        if isinstance(c, ast.Call) and call_name(c) == 'is_ready' and canon.c(c.func.value, fr) == obs:
                            a = bound_args(repo, 'Observation.is_ready', c, fr)
                            ready = a
                        if isinstance(c, ast.Call) and call_name(c) == 'check_ingest_capacity' and \
                                c.args and canon.c(c.args[0], fr) == obs:
                            cals, _ = repo.resolve_call(c, t)
                            if any(k.qual == 'Scheduler.check_ingest_capacity' for k in cals):
                                checked = True
                if ready is None:
                    ok, why, wp = False, '%s is reached without is_ready() of that observation being true' % label, p
                elif not checked:
                    ok, why, wp = False, '%s is reached without scheduler.check_ingest_capacity() being true' % label, p
                else:
                    now = canon.c(ready.get('current_time'), fr)
                    capv = ready.get('capacity')
                    capa = affine(canon, capv, fr)
                    want = Affine({'Instrument.total_arrays': 1, USE: -1})
                    if now != 'Instrument.env.now' and now != 'self.env.now':
                        ok, why, wp = False, 'is_ready is asked about %s, not the current time' % now, p
                    elif capa != want:
                        ok, why, wp = False, 'is_ready is given capacity %r, not total_arrays - telescope_use' % capa, p
                    elif isinstance(capv, ast.Name):
                        # computed inside the per-observation loop (fresh for each observation)
                        defs = [n for n in walk_no_nested(t.node) if isinstance(n, ast.Assign) and any(
                            isinstance(tt, ast.Name) and tt.id == capv.id for tt in n.targets)]
                        loops_use = [l for l in enclosing_loops(t, node) if isinstance(l, ast.For)]
                        for d in defs:
                            ld = [l for l in enclosing_loops(t, d) if isinstance(l, ast.For)]
                            if loops_use and (not ld or ld[-1] is not loops_use[-1]):
                                ok, wp = False, p
                                why = ('the free-array count is computed outside the per-observation loop: two '
                                       'observations due in one step both see the count from before the first started')
                break
        (res.ok if ok else res.bad)('C08.A1', t, node, '%s dominated by is_ready(now, free arrays) and the ingest-capacity check' % label,
                                    'ok' if ok else why, **({} if ok else {'path': wp.describe()}))
    # begin_observation and the spawn happen together
    for p in paths:
        b = any(stmt_contains(e, lambda x: x is begins[0]) for e in p.events)
        s = any(stmt_contains(e, lambda x: x is spawns[0]) for e in p.events)
        if b != s:
            res.bad('C08.A1', t, begins[0], 'arrays taken without ingest (or vice versa)',
                    'a path takes the arrays without starting ingest, or starts ingest without taking arrays',
                    path=p.describe())
            break
    else:
        res.ok('C08.A1', t, begins[0], 'begin_observation and the ingest spawn occur on the same paths')


def predicates(repo, res, canon, pc, logic, plogic):
    # ---- A2 is_ready --------------------------------------------------------
    f = repo.func('Observation.is_ready')
    outs = outcomes(logic, f)
    res.analysed(f, len(outs))
    now, cap = f.params[1], f.params[2]
    req = [('planned start reached', [lit_le('Observation.est', now)]),
           ('enough free arrays', [lit_le('Observation.demand', cap)]),
           ('still WAITING', [Lit('Observation.status == RunStatus.WAITING', True)])]
    judge(res, 'C08.A2', f, outs, req)
    # ---- A7 is_finished -----------------------------------------------------
    f = repo.func('Observation.is_finished')
    outs = outcomes(logic, f)
    res.analysed(f, len(outs))
    req = [('ast + duration reached', [lit_le(Affine({'Observation.ast': 1, 'Observation.duration': 1}), f.params[1])]),
           ('not yet FINISHED', [Lit('Observation.status == RunStatus.FINISHED', False)])]
    judge(res, 'C08.A7', f, outs, req)
    # ---- A3 scheduler check -------------------------------------------------
    f = repo.func('Scheduler.check_ingest_capacity')
    outs = outcomes(plogic, f, depth=0)
    res.analysed(f, len(outs))
    obs, pipes, mx = f.params[1], f.params[2], f.params[3]
    dem = "%s[%s.name]['ingest_demand']" % (pipes, obs)
    cluster_alts = [Lit('truthy(Cluster.check_ingest_capacity(%s, %s))' % (dem, mx), True)]
    pending_alts = [lit_le(Affine({'Scheduler.provision_ingest': 1, dem: 1}), mx)]
    # the cluster question may carry more than (demand, limit): the same call with further arguments is still the
    # cluster check, and a pending count handed over in it moves the "pending + demand <= max" test into the cluster
    # method -- accepted when every admitting path THERE makes that test on the parameter that receives it
    cfun = repo.func('Cluster.check_ingest_capacity')
    ffr = Frame(f)
    for cnode in [n for n in walk_no_nested(f.node) if isinstance(n, ast.Call) and call_name(n) == 'check_ingest_capacity'
                  and isinstance(n.func, ast.Attribute) and pc.p(n.func.value, ffr) in ('Cluster', 'Scheduler.cluster')]:
        a_ = bound_args(repo, 'Cluster.check_ingest_capacity', cnode, ffr)
        if a_ is None or pc.p(a_.get(cfun.params[1]), ffr) != dem or pc.p(a_.get(cfun.params[2]), ffr) != mx:
            continue
        d0 = plogic.dnf(cnode, ffr, True, depth=0)
        if len(d0) != 1 or len(d0[0]) != 1:
            continue
        cl = d0[0][0]
        if cl not in cluster_alts:
            cluster_alts.append(cl)
        for pn, av in a_.items():
            if pn in (cfun.params[1], cfun.params[2]) or av is None or pc.p(av, ffr) != 'Scheduler.provision_ingest':
                continue
            want_ = lit_le(Affine({pn: 1, cfun.params[1]: 1}), cfun.params[2])
            couts = [o for o in outcomes(plogic, cfun) if o.result == 'T']
            if couts and all(want_ in o.lits for o in couts):
                pending_alts.append(cl)
    req = [('buffer check', [Lit('truthy(Buffer.check_buffer_capacity(%s))' % obs, True)]),
           ('cluster check', cluster_alts),
           ('pending + demand <= max', pending_alts)]
    judge(res, 'C08.A3', f, outs, req)
    # reservation on the admitting path
    n_t = n_res = 0
    for o in outs:
        if o.result != 'T':
            continue
        n_t += 1
        effs = [ef for ef in path_effects(canon, o.path.events)
                if ef.loc == 'Scheduler.provision_ingest' and ef.kind == 'aug+']
        if len(effs) == 1 and pc.p(effs[0].value, Frame(f)) == dem:
            n_res += 1
    (res.ok if n_t and n_t == n_res else res.bad)(
        'C08.A3', f, None, 'an admitting verdict reserves `demand` pending-ingest machines before returning',
        'ok' if n_t and n_t == n_res else
        'check_ingest_capacity returns true without reserving the ingest machines in the same step: a second '
        'observation admitted in the same timestep sees the same free machines and the ingest limit is exceeded')
    # ---- A4 cluster check ---------------------------------------------------
    f = repo.func('Cluster.check_ingest_capacity')
    outs = outcomes(plogic, f)
    res.analysed(f, len(outs))
    d, mx = f.params[1], f.params[2]
    req = [('enough available machines', [lit_le(d, "len(Cluster._resources['available'])")]),
           ('ingest limit', [lit_le(Affine({"len(Cluster._resources['ingest'])": 1, d: 1}), mx)])]
    judge(res, 'C08.A4', f, outs, req)
    # ---- A5 buffer check ----------------------------------------------------
    f = repo.func('Buffer.check_buffer_capacity')
    outs = outcomes(plogic, f, depth=0)
    res.analysed(f, len(outs))
    o = f.params[1]
    size = '(%s.duration)*(%s.ingest_data_rate)' % (o, o)
    req = [('hot tier has room for the whole volume',
            [lit_le(size, 'HotBuffer.current_capacity'),
             Lit('truthy(HotBuffer.has_capacity_for((%s.ingest_data_rate * %s.duration)))' % (o, o), True)]),
           ('cold tier has room for the whole volume',
            [Lit('truthy(ColdBuffer.has_capacity_for((%s.ingest_data_rate * %s.duration)))' % (o, o), True),
             lit_le(size, 'ColdBuffer.current_capacity')])]
    judge(res, 'C08.A5', f, outs, req)
    # has_capacity_for itself
    for q in ('HotBuffer.has_capacity_for', 'ColdBuffer.has_capacity_for'):
        capacity_pred(repo, res, canon, q)


def capacity_pred(repo, res, canon, q):
    """has_capacity_for(size): true only if current_capacity - size (- in-flight) >= 0"""
    f = repo.func(q)
    fr = Frame(f)
    tier = canon.class_name(f.cls.name)
    ok = True
    why = ''
    n = 0
    for p in cached_paths(f):
        env = {}
        exprs = {}          # local -> the comparison it was last bound to on this path
        for e in p.events:
            if e.kind == 'stmt' and isinstance(e.node, ast.Assign) and isinstance(e.node.targets[0], ast.Name):
                if isinstance(e.node.value, (ast.Compare, ast.UnaryOp)):
                    exprs[e.node.targets[0].id] = (e.node.value, dict(env))
                else:
                    exprs.pop(e.node.targets[0].id, None)
                    env[e.node.targets[0].id] = affine(canon, e.node.value, fr, env)
            if e.kind == 'stmt' and isinstance(e.node, ast.Return) and e.node.value is not None:
                v = e.node.value
                if isinstance(v, ast.Name) and v.id in exprs:      # verdict = <test>; return verdict
                    v, env = exprs[v.id]
                n += 1
                neg = False
                while isinstance(v, ast.UnaryOp) and isinstance(v.op, ast.Not):
                    v, neg = v.operand, not neg
                if not (isinstance(v, ast.Compare) and len(v.ops) == 1):
                    ok, why = False, 'returns %s' % short(ast.unparse(e.node.value))
                    continue
                d = affine(canon, v.left, fr, env) - affine(canon, v.comparators[0], fr, env)
                op = type(v.ops[0])
                if neg:       # not (a < b)  is  a >= b
                    op = {ast.Lt: ast.GtE, ast.LtE: ast.Gt, ast.Gt: ast.LtE, ast.GtE: ast.Lt}.get(op, op)
                if op in (ast.LtE, ast.Lt):
                    d = d.scale(-1)
                elif op not in (ast.GtE, ast.Gt):
                    ok, why = False, 'comparison %s' % short(ast.unparse(v))
                    continue
                # d >= 0 required shape: +capacity - size - (other non-negative demands)
                cap = '%s.current_capacity' % tier
                if d.terms.get(cap) != 1 or d.terms.get(f.params[1]) != -1 or d.const > 0 or any(
                        c > 0 for k, c in d.terms.items() if k != cap):
                    ok, why = False, 'the test is %r >= 0, not current_capacity - size >= 0' % d
    (res.ok if ok and n else res.bad)('C08.A5', f, None, '%s(size) true only if current_capacity - size >= 0' % q,
                                      'ok' if ok and n else why or 'no return')
    res.analysed(f, n)


def judge(res, rule, f, outs, req):
    trues = [o for o in outs if o.result == 'T']
    if not trues:
        res.bad(rule, f, None, '%s never true' % f.qual, '%s can never admit' % f.qual)
        return
    for name, alts in req:
        bad = [o for o in trues if not any(a in o.lits for a in alts)]
        what = '%s true => %s' % (f.qual, name)
        if bad:
            o = bad[0]
            res.bad(rule, f, o.node, what,
                    '%s can return true while "%s" does not hold: true is reached under [%s], which does not '
                    'assert %s' % (f.qual, name, ' & '.join(map(repr, o.lits)) or 'no condition',
                                   ' | '.join(map(repr, alts))), path=o.path.describe())
        else:
            res.ok(rule, f, None, what, '%d true path(s)' % len(trues))


def a6(repo, res, canon, pc):
    s = repo.func('Scheduler.allocate_ingest')
    sfr = Frame(s)
    sp = [n for n in walk_no_nested(s.node) if is_spawn(n) and call_name(n.args[0]) == 'provision_ingest_resources']
    ok = False
    why = 'allocate_ingest does not provision ingest machines'
    if sp:
        a = bound_args(repo, 'Cluster.provision_ingest_resources', sp[0].args[0], sfr)
        d = pc.p(a.get('demand'), sfr)
        ok = d == "%s[%s.name]['ingest_demand']" % (s.params[2], s.params[1])
        why = 'ingest is provisioned with %s machines, not the pipeline\'s ingest_demand' % d
    (res.ok if ok else res.bad)('C08.A6', s, sp[0] if sp else None, 'ingest provisions pipelines[obs.name][ingest_demand] machines',
                                'ok' if ok else why)
    f = repo.func('Cluster.provision_ingest_resources')
    fr = Frame(f)
    res.analysed(f, 1)
    dparam = f.params[1]
    loops = [n for n in walk_no_nested(f.node) if isinstance(n, ast.For)]
    src_ok = False
    for n in walk_no_nested(f.node):
        if isinstance(n, ast.Subscript) and isinstance(n.slice, ast.Slice) and n.slice.lower is None and \
                n.slice.upper is not None and canon.c(n.slice.upper, fr) == dparam and \
                canon.c(n.value, fr) == "Cluster._resources['available']":
            src_ok = True
    gen = [n for n in walk_no_nested(f.node) if isinstance(n, ast.Call) and call_name(n) == '_generate_ingest_tasks']
    g = repo.func('Cluster._generate_ingest_tasks')
    iters = [n.iter for n in walk_no_nested(g.node) if isinstance(n, ast.For)] + [
        c.iter for n in walk_no_nested(g.node) if isinstance(n, (ast.ListComp, ast.GeneratorExp)) for c in n.generators]
    # the parameter that decides how many tasks are made (whatever its position), and what the call hands in for it
    rng = [it for it in iters if isinstance(it, ast.Call) and call_name(it) == 'range' and len(it.args) == 1 and
           isinstance(it.args[0], ast.Name) and it.args[0].id in g.params]
    gen_ok = False
    if gen and rng:
        a_ = bound_args(repo, 'Cluster._generate_ingest_tasks', gen[0], fr)
        v_ = a_.get(rng[0].args[0].id)
        gen_ok = v_ is not None and canon.c(v_, fr) == dparam
    okk = src_ok and gen_ok and bool(rng)
    (res.ok if okk else res.bad)('C08.A6', f, None, 'exactly `demand` machines (available[:demand]) paired with `demand` ingest tasks',
                                 'ok' if okk else 'ingest no longer takes exactly `demand` machines from the available pool '
                                 '(slice ok: %s, tasks for demand: %s, range(demand): %s)' % (src_ok, gen_ok, bool(rng)))


def a8(repo, res, canon, logic):
    writes = []
    for f in repo.all_functions():
        if f.module.name.startswith(('topsim.utils', 'topsim.recipes')):
            continue
        for n in walk_no_nested(f.node):
            if isinstance(n, ast.Assign):
                for t in n.targets:
                    if isinstance(t, ast.Attribute) and t.attr == 'status':
                        ts = repo.expr_types(t.value, f)
                        if 'Observation' in ts or (f.cls and f.cls.name == 'Observation' and isinstance(
                                t.value, ast.Name) and t.value.id == 'self') or (
                                isinstance(n.value, ast.Attribute) and isinstance(n.value.value, ast.Name)
                                and n.value.value.id == 'RunStatus') or (
                                isinstance(n.value, ast.Call) and call_name(n.value) == 'finish_observation'):
                            writes.append((f, n, t))
    for f, n, t in writes:
        fr = Frame(f)
        v = n.value
        what = 'write `%s` in %s' % (short(ast.unparse(n), 60), f.qual)
        val = canon.c(v, fr)
        if f.qual == 'Observation.__init__' and val == 'RunStatus.WAITING':
            res.ok('C08.A8', f, n, what, 'initial state')
            continue
        tgt = canon.c(t.value, fr)
        ok = False
        why = 'unexpected status write'
        if val == 'RunStatus.RUNNING':
            ok = True
            for p in cached_paths(f):
                for i, e in enumerate(p.events):
                    if e.node is n:
                        must = path_must(logic, p, i)
                        if Lit('%s.status == RunStatus.WAITING' % tgt, True) not in must and \
                                Lit('RunStatus.WAITING == %s.status' % tgt, True) not in must:
                            ok, why = False, 'RUNNING is written without the observation being WAITING: it can be started twice'
        elif isinstance(v, ast.Call) and call_name(v) == 'finish_observation':
            ok = True
            for p in cached_paths(f):
                for i, e in enumerate(p.events):
                    if e.node is n:
                        fin = False
                        for x, flag in tests_before(p, i):
                            for c in asserted_calls(x.node, x.pol, flag):
                                if isinstance(c, ast.Call) and call_name(c) == 'is_finished' and \
                                        canon.c(c.func.value, fr) == tgt:
                                    fin = True
                        if not fin:
                            ok, why = False, 'FINISHED is written without is_finished() of that observation being true'
            g = repo.func('Telescope.finish_observation')
            rets = {canon.c(r.value, Frame(g)) for r in walk_no_nested(g.node) if isinstance(r, ast.Return)}
            if rets != {'RunStatus.FINISHED'}:
                ok, why = False, 'finish_observation returns %s' % sorted(rets)
        elif val == 'RunStatus.FINISHED':
            ok, why = False, 'FINISHED written directly, bypassing finish_observation (arrays are not returned)'
        (res.ok if ok else res.bad)('C08.A8', f, n, what, 'ok' if ok else why)
    if len(writes) < 3:
        res.bad('C08.A8', repo.func('Telescope.run'), None, 'only %d writes to Observation.status' % len(writes),
                'an observation life-cycle transition is missing')


def a9(repo, res, canon):
    ws = []
    for f in repo.all_functions():
        if f.name == '__init__':
            continue
        seen = set()
        for p in cached_paths(f):
            for e, _efs in effects_along(canon, p.events):
                for ef in _efs:
                    if ef.loc == USE and id(ef.node) not in seen:
                        seen.add(id(ef.node))
                        ws.append((f, ef))
    for f, ef in ws:
        what = '`%s` in %s' % (short(ast.unparse(ef.node)), f.qual)
        dem = '%s.demand' % f.params[1] if len(f.params) > 1 else '?'
        ok = (f.name == 'begin_observation' and ef.kind == 'aug+' and ef.arg == dem) or \
             (f.name == 'finish_observation' and ef.kind == 'aug-' and ef.arg == dem)
        (res.ok if ok else res.bad)('C08.A9', f, ef.node, what, 'ok' if ok else
                                    'telescope_use is changed by something other than +demand at begin / -demand at finish')
    # telescope_status is the derived flag (telescope_use != 0): True next to += demand,
    # False only when the use has dropped to 0.  Observation.is_finished needs it True.
    from ..norm import Logic, Lit
    logic = Logic(canon)
    nst = 0
    for f in repo.all_functions():
        fr = Frame(f)
        for n in walk_no_nested(f.node):
            if isinstance(n, ast.Assign) and any(isinstance(t, ast.Attribute) and t.attr == 'telescope_status'
                                                 and canon.c(t, fr) == 'Instrument.telescope_status' for t in n.targets):
                v = canon.c(n.value, fr)
                what = '`%s` in %s' % (short(ast.unparse(n)), f.qual)
                if f.name == '__init__':
                    continue
                nst += 1
                if v == 'Instrument.telescope_status':
                    res.ok('C08.A9', f, n, what, 'keeps its value (no-op)')
                elif v == 'True':
                    ok = f.name == 'begin_observation'
                    (res.ok if ok else res.bad)('C08.A9', f, n, what, 'ok' if ok else 'telescope_status set outside begin_observation')
                elif v == 'False':
                    ok = True
                    for p in cached_paths(f):
                        for i, e in enumerate(p.events):
                            if e.node is n:
                                must = path_must(logic, p, i)
                                okz = Lit('0 == %s' % USE, True) in must or Lit('truthy(%s)' % USE, False) in must
                                if not okz:
                                    # `new = use - demand; self.telescope_use = new; if new == 0:` tests the
                                    # value just stored
                                    for x in p.events[:i]:
                                        if x.kind == 'stmt' and isinstance(x.node, ast.Assign) and any(
                                                canon.c(t, fr) == USE for t in x.node.targets):
                                            vs = canon.c(x.node.value, fr)
                                            a_, b_ = sorted(['0', vs])
                                            if Lit('%s == %s' % (a_, b_), True) in must or Lit('truthy(%s)' % vs, False) in must:
                                                okz = True
                                if not okz:
                                    ok = False
                    (res.ok if ok else res.bad)(
                        'C08.A9', f, n, what, 'under telescope_use == 0' if ok else
                        'the telescope is marked not-in-use while arrays may still be held by another observation: '
                        'Observation.is_finished requires the flag, so an overlapping observation is never marked '
                        'FINISHED, never frees its arrays, and the simulation cannot terminate')
                else:
                    res.bad('C08.A9', f, n, what, 'telescope_status set to %s' % v)
    names = {f.name for f, _ in ws}
    for need in ('begin_observation', 'finish_observation'):
        if need not in names:
            res.bad('C08.A9', repo.func('Telescope.' + need), None, '%s does not update telescope_use' % need,
                    'array use is no longer tracked in %s' % need)
