"""Reporting functions and state queries are side-effect free (shared lint).

A function is pure when every heap effect on its paths (callees in topsim inlined two
levels) lands on an object the function created itself (a local bound to a display or a
constructor/library call)."""
import ast

from ..index import walk_no_nested
from ..norm import Canon, effects_of_event
from ..paths import Frame, cached_paths, expanded_paths, assigned_names
from .common import short

REPORTING = ['Cluster.to_df', 'Buffer.to_df', 'Telescope.to_df', 'Scheduler.to_df',
             'Cluster.finished_task_time_data', 'Simulation._generate_final_task_data',
             'Monitor.collate_actor_dataframes', 'Telescope.observations_waiting',
             'Telescope.observations_finished', 'Telescope._calc_observation_delay',
             'Scheduler.to_summary', 'Scheduler.scheduler_status']
QUERIES = ['Cluster.is_idle', 'Buffer.is_empty', 'Scheduler.is_idle', 'Telescope.is_idle',
           'Simulation.is_finished', 'Cluster.is_occupied', 'Cluster.is_task_finished',
           'Cluster.is_observation_provisioned', 'Cluster.get_idle_resources',
           'Cluster.get_available_resources', 'Cluster.current_available_resources',
           'Cluster.check_ingest_capacity', 'Buffer.check_buffer_capacity',
           'Buffer.check_buffer_over_data_threshold', 'Buffer.project_buffer_capacity',
           'Buffer.has_observations_ready_for_processing', 'HotBuffer.has_capacity_for',
           'ColdBuffer.has_capacity_for', 'HotBuffer.has_stored_observations',
           'Observation.is_ready', 'Observation.is_finished', 'Telescope.has_observations_to_process']


def _fresh_value(v, fresh, name, d=0):
    """does expression v evaluate to an object this function has just created?"""
    if d > 6:
        return False
    if isinstance(v, (ast.List, ast.Dict, ast.Set, ast.ListComp, ast.DictComp, ast.SetComp,
                      ast.Constant, ast.BinOp, ast.JoinedStr, ast.Compare, ast.BoolOp)):
        return True
    if isinstance(v, ast.Call):
        fn = v.func
        # constructor / library call / method returning a new object (to_df, join, T ...)
        root = fn
        while isinstance(root, ast.Attribute):
            root = root.value
        if isinstance(root, ast.Name) and root.id in ('pd', 'np', 'nx', 'copy', 'len', 'int', 'str',
                                                      'list', 'dict', 'set', 'sum', 'sorted', 'max', 'min'):
            return True
        if isinstance(fn, ast.Attribute) and fn.attr in ('to_df', 'join', 'infer_objects', 'copy',
                                                         'finished_task_time_data', 'fillna'):
            return True
        if isinstance(root, ast.Name) and (root.id in fresh or root.id == name):
            return True
        if isinstance(fn, ast.Attribute) and _fresh_value(fn.value, fresh, name, d + 1):
            return True       # a method of a fresh object: fresh().T.copy()
        return False
    if isinstance(v, ast.Attribute):
        if isinstance(v.value, ast.Name) and (v.value.id in fresh or v.value.id == name):
            return True      # df = df.T
        return isinstance(v.value, (ast.Call, ast.Attribute)) and _fresh_value(v.value, fresh, name, d + 1)
    return False


def fresh_locals(f):
    """locals bound (every time) to something the function creates itself"""
    out = set()
    params = set(f.params) | set(f.kwonly)
    for name, nodes in assigned_names(f).items():
        if name in params:
            continue
        ok = True
        for n in nodes:
            if isinstance(n, ast.Assign) and any(isinstance(t, ast.Name) and t.id == name for t in n.targets):
                if _fresh_value(n.value, out, name):
                    continue
                ok = False
            elif isinstance(n, (ast.For, ast.comprehension)):
                ok = False
            elif isinstance(n, ast.AugAssign):
                continue
            else:
                ok = False
        if ok:
            out.add(name)
    return out


def check_pure(repo, res, rule, quals, why):
    canon = Canon(repo)
    for q in quals:
        if not repo.has_func(q):
            res.note('%s: %s does not exist (skipped)' % (rule, q))
            continue
        f = repo.func(q)
        try:
            paths = expanded_paths(repo, f, 2)
        except Exception:
            paths = cached_paths(f)
        res.analysed(f, len(paths))
        bad = None
        seen_nodes = set()
        for p in paths:
            fresh = {}
            for e in p.events:
                if e.kind not in ('stmt', 'test'):
                    continue
                fl = fresh.setdefault(id(e.frame), fresh_locals(e.frame.func))
                for ef in effects_of_event(canon, e):
                    import re as _re
                    m_ = _re.match(r'(?:[\w.]+#)?(\w+)', ef.loc)
                    root = m_.group(1) if m_ else ef.loc
                    if root in fl or ef.loc.startswith('<copy of'):
                        continue
                    # effect on a plain local name bound in this frame (e.g. set -= ...)
                    if root in assigned_names(e.frame.func) and root not in e.frame.func.params and \
                            '.' not in ef.loc and '[' not in ef.loc and root in fl:
                        continue
                    if id(ef.node) in seen_nodes:
                        continue
                    seen_nodes.add(id(ef.node))
                    bad = (e, ef, p)
                    break
                if bad:
                    break
            if bad:
                break
        what = '%s has no side effect on simulator state' % q
        if bad:
            e, ef, p = bad
            res.bad(rule, f, ef.node, '%s writes %s' % (q, short(ef.loc, 60)),
                    '%s is a reporting/query function but `%s` (in %s) changes %s: %s' % (
                        q, short(ast.unparse(ef.node), 60), e.frame.func.qual, short(ef.loc, 60), why),
                    path=p.describe(), what=what)
        else:
            res.ok(rule, f, None, what, '%d path(s), callees inlined' % len(paths))
