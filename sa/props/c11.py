"""C11 -- pausing and resuming is transparent.

U1 start/resume test the running flag and raise before any effect
U2 resume's only effect is env.run(until=...): it registers nothing, writes nothing
U3 each actor loop is registered exactly once, in start, behind the guard
U4 consume-once: a collation that can run twice over one step empties what it read
U5 a pause never splits a timestep: every process sleeps in whole steps
   (timeout arguments), so env.run(until=k) cuts between steps
"""
import ast

from ..index import AnalysisError, is_spawn, walk_no_nested
from ..norm import Canon, Lit, Logic, effects_of_event, effects_along
from ..paths import Frame, cached_paths
from ..simpy_model import ACTOR_ATTRS, registration_order, witness
from .c13 import consume_once
from .common import call_name, path_must, short, stmt_contains

FLOORS = {'C11.U1': 2, 'C11.U2': 1, 'C11.U3': 5, 'C11.U4': 3}

FLAG = 'Simulation.running'


def first_effect_index(canon, p):
    """index of the first event that has a heap effect or performs a call
    (other than logging); tests are not effects"""
    for i, e in enumerate(p.events):
        if e.kind != 'stmt':
            continue
        if isinstance(e.node, ast.Expr) and isinstance(e.node.value, ast.Constant):
            continue
        if isinstance(e.node, (ast.Raise, ast.Pass)):
            continue
        if effects_of_event(canon, e):
            return i
        for n in ast.walk(e.node):
            if isinstance(n, ast.Call) and not _is_logging(n):
                return i
    return None


def _is_logging(call):
    f = call.func
    return isinstance(f, ast.Attribute) and f.attr in ('debug', 'info', 'warning', 'error') and \
        isinstance(f.value, ast.Name) and f.value.id.lower() in ('logger', 'log')


def check(repo, res, tier):
    canon = Canon(repo)
    logic = Logic(canon)
    res.rule('C11.U1', 'start raises when already running, resume raises when not running, before any effect')
    res.rule('C11.U2', 'resume registers no process, writes no state; it only advances the clock (and may collate)')
    res.rule('C11.U3', 'each actor loop is spawned exactly once, only in Simulation.start')
    res.rule('C11.U4', 'collate_events empties each list it has read')
    res.rule('C11.U5', 'processes sleep only in whole timesteps (so a pause cannot split a step)')
    w = witness()
    res.extra['simpy_witness'] = w
    res.assumptions += ['SimPy: env.run(until=k) stops on an URGENT event scheduled before any event of step k',
                        'equality of whole trajectories follows from U1-U5 and SimPy determinism; not proved here']
    start = repo.func('Simulation.start')
    resume = repo.func('Simulation.resume')
    for f, must_be_running in ((start, False), (resume, True)):
        paths = cached_paths(f)
        res.analysed(f, len(paths))
        ok = True
        why = ''
        for p in paths:
            i = first_effect_index(canon, p)
            upto = i if i is not None else len(p.events)
            must = path_must(logic, p, upto)
            known = Lit('truthy(%s)' % FLAG, must_be_running) in must
            if p.exit == 'raise' and i is None:
                continue
            if not known:
                ok = False
                why = 'a path of %s performs `%s` without having tested the running flag' % (
                    f.qual, short(ast.unparse(p.events[i].node)) if i is not None else 'its work')
                wp = p
                break
        # the opposite flag value must lead to a raise with no effect
        raised = any(p.exit == 'raise' and first_effect_index(canon, p) is None and
                     Lit('truthy(%s)' % FLAG, not must_be_running) in path_must(logic, p) for p in paths)
        if ok and not raised:
            ok, why, wp = False, '%s does not refuse (raise) when the simulation is %s' % (
                f.qual, 'already running' if not must_be_running else 'not started'), paths[0]
        what = '%s refuses with an error before any effect when %s' % (
            f.name, 'already started' if not must_be_running else 'not started')
        (res.ok(('C11.U1'), f, f.node, what) if ok else
         res.bad('C11.U1', f, f.node, what, why, path=wp.describe()))
    # start marks the simulation as running on every path that registers processes
    for p in cached_paths(start):
        if p.exit == 'raise':
            continue
        sets = [i for i, (e, _efs) in enumerate(effects_along(canon, p.events)) for ef in _efs
                if ef.loc == FLAG and ef.arg == 'True']
        if not sets:
            res.bad('C11.U1', start, start.node, 'running flag not set by start',
                    'start completes without marking the simulation as running: a second start '
                    'would register every actor again and resume would be refused', path=p.describe())
            break
    else:
        res.ok('C11.U1', start, start.node, 'start sets running = True on every completing path')
    # ---- U2 ----------------------------------------------------------------
    fr = Frame(resume)
    bad = None
    runs = 0
    for n in walk_no_nested(resume.node):
        if isinstance(n, ast.Call):
            if is_spawn(n) or call_name(n) == 'process':
                bad = (n, 'registers a process')
            elif call_name(n) == 'run' and canon.c(n.func.value, fr).endswith('env'):
                runs += 1
                kw = {k.arg for k in n.keywords}
                if not (n.args or 'until' in kw):
                    bad = (n, 'runs without a bound')
            elif call_name(n) in ('RuntimeError', 'collate_events') or _is_logging(n):
                pass    # collate_events is idempotent once U4 holds
            else:
                bad = (n, 'calls %s' % short(ast.unparse(n.func)))
        elif isinstance(n, (ast.Assign, ast.AugAssign, ast.Delete)):
            tg = n.targets if isinstance(n, (ast.Assign, ast.Delete)) else [n.target]
            if any(isinstance(t, (ast.Attribute, ast.Subscript)) for t in tg):
                bad = (n, 'writes %s' % short(ast.unparse(n)))
    if bad:
        res.bad('C11.U2', resume, bad[0], 'resume %s' % bad[1],
                'resume %s; resuming is no longer just advancing the clock' % bad[1])
    elif runs != 1:
        res.bad('C11.U2', resume, resume.node, 'resume calls env.run %d times' % runs,
                'resume does not advance the clock exactly once')
    else:
        res.ok('C11.U2', resume, resume.node, 'resume only calls env.run(until=...)')
    from . import initial
    res.rule('C11.U9', 'initial state: a new simulation is not running')
    initial.check_values(repo, res, 'C11.U9', [('Simulation', 'running', False)],
                         {('Simulation', 'running'): 'start() refuses at once and resume() runs a simulation no process was '
                                                     'registered for'})
    # ---- U8: what start() does after the clock has stopped -------------------
    res.rule('C11.U8', 'after env.run has returned, start() only reports (collate, tables, output file): it changes no actor, '
                       'so a pause is invisible to the resumed run')
    sfr = Frame(start)
    body = start.node.body
    last_run = -1
    for i, st in enumerate(body):
        if any(isinstance(x, ast.Call) and call_name(x) == 'run' and isinstance(x.func, ast.Attribute)
               and canon.c(x.func.value, sfr).endswith('env') for x in ast.walk(st)):
            last_run = i
    tail_calls = [x for st in body[last_run + 1:] for x in ast.walk(st) if isinstance(x, ast.Call)] if last_run >= 0 else []
    from .purity import check_pure, REPORTING, QUERIES
    n_tail = 0
    for cnode in tail_calls:
        if _is_logging(cnode) or call_name(cnode) in ('collate_events', 'RuntimeError', 'str', 'len', 'print'):
            continue
        if isinstance(cnode.func, ast.Attribute) and '_hdf5_store' in ast.unparse(cnode.func):
            continue
        cals, exact = repo.resolve_call(cnode, start)
        for cal in cals:
            if cal.qual in REPORTING or cal.qual in QUERIES or cal.name == '_compose_hdf5_output':
                continue
            n_tail += 1
            check_pure(repo, res, 'C11.U8', [cal.qual],
                       'it is called by start() after the clock has stopped -- also at a pause (start(runtime=k)) -- so the '
                       'resumed run continues from a changed state')
    if last_run < 0:
        res.bad('C11.U8', start, start.node, 'start never runs the clock', 'start() no longer calls env.run')
    elif not n_tail:
        res.ok('C11.U8', start, body[last_run], 'after env.run start() only collates and builds its tables')
    # ---- U3 ----------------------------------------------------------------
    order = registration_order(repo)
    names = [cn for cn, _ in order]
    for want in ('Monitor', 'Instrument', 'Cluster', 'Scheduler', 'Buffer'):
        cnt_ok = True
        for p in cached_paths(start):
            if p.exit == 'raise':
                continue
            c = sum(1 for e in p.events if e.kind == 'stmt' for n in ast.walk(e.node)
                    if any(n is sp for cn, sp in order if cn == want))
            if c != 1:
                cnt_ok = False
        what = '%s.run registered exactly once on every path of start' % want
        (res.ok if cnt_ok and names.count(want) == 1 else res.bad)(
            'C11.U3', start, start.node, what,
            'ok' if cnt_ok and names.count(want) == 1 else
            'the %s loop is registered %d time(s) in start (or not on every path): its work would '
            'run twice per step or never' % (want, names.count(want)))
    # no actor loop is spawned anywhere else
    actor_runs = {'Monitor.run', 'Telescope.run', 'Cluster.run', 'Scheduler.run', 'Buffer.run'}
    for f, call, spawned, exact in repo.call_sites(actor_runs):
        if f.qual == 'Simulation.start' or not spawned or not exact:
            continue
        res.bad('C11.U3', f, call, 'actor loop spawned in %s' % f.qual,
                '%s registers an actor loop outside Simulation.start' % f.qual)
    # ---- U4 ----------------------------------------------------------------
    consume_once(repo, res, canon, 'C11.U4')
    # ---- U6: what start() computes on return is a pure function of the state ----
    from .purity import REPORTING, check_pure
    res.rule('C11.U6', 'the reporting functions start() calls when it pauses are side-effect free '
                       '(a pause must not leave traces that a later table shows)')
    check_pure(repo, res, 'C11.U6', REPORTING,
               'a pause (start(runtime=k) builds the tables) would alter what the resumed run reports')
    # ---- U7: the running flag is monotone -----------------------------------
    res.rule('C11.U7', 'Simulation.running is only ever set to True (outside __init__)')
    nw = 0
    for f in repo.all_functions():
        ffr = Frame(f)
        for n in walk_no_nested(f.node):
            if isinstance(n, ast.Assign):
                for t in n.targets:
                    if isinstance(t, ast.Attribute) and t.attr == 'running' and canon.c(t, ffr) == FLAG:
                        if f.name == '__init__':
                            continue
                        nw += 1
                        v = canon.c(n.value, ffr)
                        (res.ok if v == 'True' else res.bad)(
                            'C11.U7', f, n, '`%s` in %s' % (short(ast.unparse(n)), f.qual),
                            'ok' if v == 'True' else 'the running flag is reset to %s: after that a second '
                            'start() is no longer refused (it registers every actor again) and resume() is refused' % v)
    if not nw:
        res.bad('C11.U7', start, None, 'running flag never set', 'start never marks the simulation as running')
    # ---- U5 ----------------------------------------------------------------
    frac = []
    for f in repo.all_functions():
        if not f.is_generator:
            continue
        for n in walk_no_nested(f.node):
            if isinstance(n, ast.Call) and call_name(n) == 'timeout' and n.args:
                a = n.args[0]
                txt = ast.unparse(a)
                if isinstance(a, ast.Constant) and isinstance(a.value, float) and a.value != int(a.value):
                    frac.append((f, n))
    for f, n in frac:
        res.bad('C11.U5', f, n, short(ast.unparse(n)), 'a process sleeps a fraction of a timestep: '
                'a pause at an integer time can fall inside its step')
    if not frac:
        res.ok('C11.U5', start, start.node, 'no constant fractional timeout in any process')
