"""C18 -- moving an observation between buffer tiers conserves data.

For each mover (hot->cold, cold->hot) the per-step arithmetic of the receiving
and the sending tier is turned into a decision table (case -> capacity delta,
new residual) with affine forms, all in the caller's terms.

V1 rate agreement: both tables are driven by the same rate expression
V2 slower-of-two: that expression is min(hot.max_ingest_data_rate, cold.max_data_rate)
V3 mirror arithmetic: per case, receiver's capacity delta = -(sender's), same residual,
   and the capacity delta equals minus the data moved; the loop compares the residuals
V4 exactly one tier: source pops into the transfer slot; receiver stores the
   observation exactly when the residual reaches 0
V5 refusal restores: the refusing path undoes every write since entry
"""
import ast

from ..index import AnalysisError, walk_no_nested
from ..norm import Affine, Canon, Lit, Logic, ProvCanon, affine, effects_of_event, minmax_term, effects_along, path_effects
from ..paths import Frame, bind_args, cached_paths, function_paths
from .common import call_name, short, stmt_contains

FLOORS = {'C18.V1': 2, 'C18.V2': 2, 'C18.V3': 6, 'C18.V4': 4, 'C18.V5': 2, 'C18.V6': 2, 'C18.V7': 2, 'C18.V9': 2}

MOVERS = {
    'Buffer.move_hot_to_cold': ('HotBuffer', 'ColdBuffer'),
    'Buffer.move_cold_to_hot': ('ColdBuffer', 'HotBuffer'),
}
SLOWER = ('HotBuffer.max_ingest_data_rate', 'ColdBuffer.max_data_rate')


class Row:
    def __init__(self):
        self.sign = None          # '+', '-' or None (rate sign case)
        self.small = None         # True: residual < rate; False: not; None: untested
        self.dcap = Affine()
        self.res = None
        self.rate = None
        self.stored = 0
        self.slot = []            # values assigned to the transfer slot
        self.zero_test = None
        self.stored_args = []
        self.zero_of = None
        self.path = None
        self.other = []

    def case(self):
        return (self.sign, self.small)


def table(repo, canon, callee, call, caller_frame, residual_param='residual_data'):
    """decision table of one tier method for one call site.  Locals are evaluated along each
    path as affine forms, so temporaries (`moved = ...; cap += moved`) and `a = a - b` spellings
    give the same rows as the direct form."""
    from ..norm import TERM_INFO
    sub = Frame(callee, caller_frame, bind_args(callee, call, caller_frame), call)
    tier = canon.class_name(callee.cls.name)
    cap = '%s.current_capacity' % tier
    stored = "%s.observations['stored']" % tier
    slot = "%s.observations['transfer']" % tier
    rows = []
    D0 = None
    if residual_param in callee.params:
        ex, fr0 = sub.binding[residual_param]
        D0 = affine(canon, ex, fr0)
    for p in function_paths(callee, sub):
        if p.exit == 'raise':
            continue
        r = Row()
        r.path = p
        env = {}
        flags = {}
        if D0 is not None:
            env[residual_param] = D0
        feasible = True
        for e in p.events:
            if e.kind == 'test':
                t, pol = e.node, e.pol
                while isinstance(t, ast.UnaryOp) and isinstance(t.op, ast.Not):
                    t, pol = t.operand, not pol
                cmp = None
                if isinstance(t, ast.Compare) and len(t.ops) == 1:
                    cmp = (affine(canon, t.left, sub, env), affine(canon, t.comparators[0], sub, env),
                           type(t.ops[0]))
                elif isinstance(t, ast.Name) and t.id in flags:
                    # a local holding the outcome of a comparison made earlier on this path
                    cmp = flags[t.id][:3]
                    if flags[t.id][3]:
                        pol = not pol
                elif isinstance(t, ast.Name) and (t.id in env or t.id == residual_param):
                    # truthiness of a number: `if not residual:` is `residual == 0`
                    cmp = (affine(canon, t, sub, env), Affine(), ast.NotEq)
                if cmp is not None:
                    l, rr, op = cmp
                    d = l - rr
                    if op in (ast.Is, ast.IsNot):
                        continue
                    if d.is_const() and op in (ast.Eq, ast.NotEq):
                        val = (d.const == 0) == (op is ast.Eq)
                        if val != pol:
                            feasible = False
                            break
                        continue
                    if op in (ast.Eq, ast.NotEq) and rr.is_const() and rr.const == 0:
                        # `<residual after this step> == 0`
                        r.zero_test = (op is ast.Eq) == pol
                        r.zero_of = l
                        continue
                    if rr.is_const() and rr.const == 0 and op in (ast.Lt, ast.Gt, ast.LtE, ast.GtE) and l != D0:
                        pos = {ast.Gt: True, ast.GtE: True, ast.Lt: False, ast.LtE: False}[op]
                        sign = '+' if pos == pol else '-'
                        if r.sign is not None and r.rate == l and r.sign != sign:
                            feasible = False     # the sign of the rate was decided the other way earlier on this path
                            break
                        r.sign = sign
                        r.rate = l
                        continue
                    if D0 is not None and op in (ast.Lt, ast.GtE, ast.LtE, ast.Gt) and (l == D0 or rr == D0):
                        if l == D0:
                            lt = {ast.Lt: True, ast.GtE: False}.get(op)
                            other = rr
                        else:
                            lt = {ast.Gt: True, ast.LtE: False}.get(op)
                            other = l
                        if lt is None:
                            r.other.append('%s is %s' % (ast.unparse(t), pol))
                            continue
                        r.small = lt == pol
                        if r.rate is None:
                            r.rate = other
                        elif r.rate != other:
                            r.other.append('compares the residual with %r' % other)
                        continue
                    r.other.append('%s is %s' % (ast.unparse(t), pol))
                else:
                    c = canon.c(t, sub)
                    if c == slot:
                        continue
                    r.other.append('%s is %s' % (ast.unparse(t), pol))
            elif e.kind == 'stmt':
                n = e.node
                if isinstance(n, ast.AugAssign):
                    v = affine(canon, n.value, sub, env)
                    sgn = 1 if isinstance(n.op, ast.Add) else -1 if isinstance(n.op, ast.Sub) else None
                    if isinstance(n.target, ast.Name) and sgn:
                        cur = env.get(n.target.id, Affine({n.target.id: 1}))
                        env[n.target.id] = cur + v.scale(sgn)
                    elif canon.c(n.target, sub) == cap and sgn:
                        r.dcap = r.dcap + v.scale(sgn)
                    elif canon.c(n.target, sub) == cap:
                        r.other.append('capacity %s' % ast.unparse(n))
                elif isinstance(n, ast.Assign) and len(n.targets) == 1:
                    t0 = n.targets[0]
                    if isinstance(t0, ast.Name):
                        flags.pop(t0.id, None)
                        fv, neg = n.value, False
                        while isinstance(fv, ast.UnaryOp) and isinstance(fv.op, ast.Not):
                            fv, neg = fv.operand, not neg
                        if isinstance(fv, ast.Compare) and len(fv.ops) == 1:
                            flags[t0.id] = (affine(canon, fv.left, sub, env),
                                            affine(canon, fv.comparators[0], sub, env), type(fv.ops[0]), neg)
                        env[t0.id] = affine(canon, n.value, sub, env)
                    else:
                        tc = canon.c(t0, sub)
                        if tc == cap:
                            newv = affine(canon, n.value, sub, env)
                            if newv.terms.get(cap) == 1:
                                r.dcap = r.dcap + (newv - Affine({cap: 1}))
                            else:
                                r.other.append('capacity overwritten: %s' % ast.unparse(n))
                        elif tc == slot:
                            r.slot.append(canon.c(n.value, sub))
                for ef in effects_of_event(canon, e):
                    if ef.loc == stored and ef.kind == 'append':
                        r.stored += 1
                        r.stored_args.append(ef.arg)
                    elif ef.loc == stored:
                        r.other.append('%s on stored' % ef.kind)
                if isinstance(n, ast.Return) and n.value is not None:
                    r.res = affine(canon, n.value, sub, env)
        if not feasible:
            continue
        # the zero test is about the value that is returned; if it is constant, decide it
        if r.zero_test is not None and r.res is not None and getattr(r, 'zero_of', None) == r.res and r.res.is_const():
            if (r.res.const == 0) != r.zero_test:
                continue
        # min(rate, residual) without a branch: split into the two cases it stands for
        split = None
        if r.small is None and r.sign != '-' and D0 is not None:
            for a in (r.dcap, r.res):
                if a is None:
                    continue
                for k in a.terms:
                    if k in TERM_INFO and TERM_INFO[k][0] == 'min' and len(TERM_INFO[k][1]) >= 2 and \
                            D0 in TERM_INFO[k][1]:
                        split = (k, minmax_term('min', [x for x in TERM_INFO[k][1] if x != D0]))
        if split is not None:
            k, rate = split
            for small in (True, False):
                r2 = Row()
                r2.__dict__.update({kk: vv for kk, vv in r.__dict__.items()}) if hasattr(r, '__dict__') else None
                r2 = _copy_row(r)
                val = D0 if small else rate
                r2.small = small
                r2.rate = rate if r.rate is None else r.rate
                r2.dcap = _subst_term(r.dcap, k, val)
                r2.res = _subst_term(r.res, k, val) if r.res is not None else None
                if r2.zero_test is not None and r2.res is not None and r2.res.is_const():
                    if (r2.res.const == 0) != r2.zero_test:
                        continue
                rows.append(r2)
        else:
            rows.append(r)
    return rows, sub


def _copy_row(r):
    r2 = Row()
    for k in ('sign', 'small', 'dcap', 'res', 'rate', 'stored', 'zero_test', 'path'):
        setattr(r2, k, getattr(r, k))
    r2.stored_args = list(r.stored_args)
    r2.slot = list(r.slot)
    r2.other = list(r.other)
    return r2


def _subst_term(a, key, val):
    if a is None or key not in a.terms:
        return a
    coeff = a.terms[key]
    rest = Affine({k: v for k, v in a.terms.items() if k != key}, a.const)
    return rest + val.scale(coeff)


def v9(repo, res, canon, logic, f, fr, rc):
    """the move loop goes on exactly while data is left: it is left (normally) only with the
    residual <= 0 and it goes round again only with the residual > 0"""
    from .common import enclosing_loops, iteration_segments, path_must
    from ..norm import Lit
    from ..paths import is_const_true
    loops = [l for l in enclosing_loops(f, rc) if isinstance(l, ast.While)]
    if not loops or len(rc.args) < 2 or not isinstance(rc.args[1], ast.Name):
        res.bad('C18.V9', f, rc, 'no move loop around receive_observation(obs, residual)',
                'the per-step receive is not inside a loop driven by a residual local')
        return
    lp = loops[-1]
    R = rc.args[1].id
    more = Lit('%s <= 0' % R, False)
    done = Lit('%s <= 0' % R, True)
    ok, why, n = True, '', 0
    if not is_const_true(lp.test):
        must = logic.must(lp.test, fr, True)
        if more not in must or len(must) != 1:
            ok, why = False, 'the move loop runs while `%s`, not while data is left (%s > 0)' % (short(ast.unparse(lp.test)), R)
        n += 1
    for seg, how in iteration_segments(f, lp):
        if how == 'raise':
            continue
        class _P:
            events = seg
        must = path_must(logic, _P, depth=0)
        if how in ('return', 'fall', 'break'):
            n += 1
            if done not in must:
                ok, why = False, ('the move loop is left on a path that has not established that nothing is left to move '
                                  '(%s <= 0): the observation stays in the transfer slots for ever' % R)
        elif how == 'back' and is_const_true(lp.test):
            n += 1
            if more not in must:
                ok, why = False, ('the move loop goes round again on a path that has not established that data is left '
                                  '(%s > 0): with nothing left it never ends' % R)
    (res.ok if ok and n else res.bad)('C18.V9', f, lp, '%s: the loop runs exactly while data is left' % f.name,
                                      '%d path(s)' % n if ok and n else why or 'no loop path')


def check(repo, res, tier):
    canon = Canon(repo)
    logic = Logic(canon)
    res.rule('C18.V9', 'a move loop is left only with residual <= 0 and repeated only with residual > 0')
    res.rule('C18.V1', 'receiver and sender of one move loop are driven by the same rate expression')
    res.rule('C18.V2', 'that rate is min(hot.max_ingest_data_rate, cold.max_data_rate)')
    res.rule('C18.V3', 'per case (rate sign, residual < rate): receiver capacity delta = -(sender capacity delta) '
                       '= -(data moved), same new residual; the loop raises when the residuals differ')
    res.rule('C18.V4', 'source pops the observation into its transfer slot; receiver appends it to stored '
                       'and clears the slot exactly when the residual reaches 0')
    res.rule('C18.V6', 'the transfer loop is entered only if the DESTINATION tier has room')
    res.rule('C18.V7', 'the remaining-data counter of a move is local to that move')
    res.rule('C18.V8', 'the published pending-transfer volume is the current residual')
    res.rule('C18.V5', 'the refusing path (destination lacks room) restores every attribute written since entry')
    res.assumptions += ['transfer rates are non-zero (rate 0 is excluded; the siblings disagree there)',
                        'one hot and one cold tier']
    for q, (src_cls, dst_cls) in MOVERS.items():
        f = repo.func(q)
        fr = Frame(f)
        paths = cached_paths(f)
        res.analysed(f, len(paths))
        recv = [n for n in walk_no_nested(f.node) if isinstance(n, ast.Call) and call_name(n) == 'receive_observation']
        send = [n for n in walk_no_nested(f.node) if isinstance(n, ast.Call) and call_name(n) == 'transfer_observation']
        if len(recv) != 1 or len(send) != 1:
            res.bad('C18.V3', f, f.node, '%d receive / %d transfer calls' % (len(recv), len(send)),
                    'the move loop no longer pairs one receive with one transfer per step')
            continue
        rc, sc = recv[0], send[0]
        rcal, _ = repo.resolve_call(rc, f)
        scal, _ = repo.resolve_call(sc, f)
        if len(rcal) != 1 or len(scal) != 1 or canon.class_name(rcal[0].cls.name) != dst_cls or \
                canon.class_name(scal[0].cls.name) != src_cls:
            res.bad('C18.V3', f, rc, 'receive on %s / transfer on %s' % (
                [c.qual for c in rcal], [c.qual for c in scal]),
                '%s must receive on the %s and transfer from the %s' % (q, dst_cls, src_cls))
            continue
        v9(repo, res, canon, logic, f, fr, rc)
        rrows, rsub = table(repo, canon, rcal[0], rc, fr)
        srows, ssub = table(repo, canon, scal[0], sc, fr)
        res.analysed(rcal[0], len(rrows))
        res.analysed(scal[0], len(srows))
        rrates = {repr(r.rate) for r in rrows if r.rate is not None}
        srates = {repr(r.rate) for r in srows if r.rate is not None}
        # ---- V1 --------------------------------------------------------------
        what = '%s: receive and transfer use one rate' % f.name
        if len(rrates) == 1 and rrates == srates:
            res.ok('C18.V1', f, rc, what, next(iter(rrates)))
            rate = next(r.rate for r in rrows if r.rate is not None)
        else:
            res.bad('C18.V1', f, sc, what,
                    'in %s the receiving tier moves at %s per step but the sending tier at %s: whenever '
                    'these differ the two residuals disagree (data is not conserved; the loop\'s own check '
                    'raises RuntimeError)' % (f.name, ' / '.join(sorted(rrates)) or '?',
                                              ' / '.join(sorted(srates)) or '?'))
            rate = None
        # ---- V2 --------------------------------------------------------------
        want = minmax_term('min', [Affine({SLOWER[0]: 1}), Affine({SLOWER[1]: 1})])
        for side, rates, node in (('receive', rrates, rc), ('transfer', srates, sc)):
            what = '%s: %s rate is the slower of the two tiers' % (f.name, side)
            if rates == {repr(want)}:
                res.ok('C18.V2', f, node, what)
            else:
                res.bad('C18.V2', f, node, '%s %s at %s' % (f.name, side, ' / '.join(sorted(rates)) or '?'),
                        'in %s the %s side moves at %s per step, not at min(hot.max_ingest_data_rate, '
                        'cold.max_data_rate): when the other tier is the slower one the move runs faster '
                        'than that tier allows' % (f.name, side, ' / '.join(sorted(rates)) or '?'), what=what)
        # ---- V3 --------------------------------------------------------------
        D = None
        for r in rrows + srows:
            for o in r.other:
                res.bad('C18.V3', f, rc, 'unrecognised arithmetic: %s' % short(o, 70),
                        'the per-step arithmetic has a case the mirror rule does not know (%s)' % short(o))
        cases = sorted({r.case() for r in rrows} | {r.case() for r in srows}, key=str)
        norm = lambda rows: {}
        rt, st = {}, {}
        for r in rrows:
            rt.setdefault(_norm_case(r), []).append(r)
        for r in srows:
            st.setdefault(_norm_case(r), []).append(r)
        for case in sorted(set(rt) | set(st), key=str):
            what = '%s case %s: mirror arithmetic' % (f.name, _case_name(case))
            a, b = rt.get(case), st.get(case)
            if not a or not b:
                res.bad('C18.V3', f, rc if not a else sc, what,
                        'the %s has no case %s that the other side has: the tiers disagree for such steps' % (
                            'receiver' if not a else 'sender', _case_name(case)))
                continue
            ok = True
            why = ''
            for x in a:
                for y in b:
                    if x.zero_test is not None and y.zero_test is not None and x.zero_test != y.zero_test:
                        continue
                    if x.dcap != y.dcap.scale(-1):
                        ok, why = False, 'receiver capacity changes by %r, sender by %r' % (x.dcap, y.dcap)
                    elif x.res != y.res:
                        ok, why = False, 'receiver reports residual %r, sender %r' % (x.res, y.res)
            # capacity delta = -(data moved)
            for x in a:
                ex, frx = rsub.binding['residual_data']
                D0 = affine(canon, ex, frx)
                if x.res is not None and (x.dcap + (D0 - x.res)) != Affine():
                    ok, why = False, 'receiver capacity changes by %r but the data moved is %r' % (x.dcap, D0 - x.res)
            (res.ok if ok else res.bad)('C18.V3', f, rc, what, 'ok' if ok else
                                        'in %s, case %s: %s; what leaves one tier does not enter the other' % (
                                            f.name, _case_name(case), why))
        # the loop compares the two residuals and raises
        guard = False
        for n in walk_no_nested(f.node):
            if isinstance(n, ast.If) and isinstance(n.test, ast.Compare) and isinstance(
                    n.test.ops[0], ast.NotEq) and any(isinstance(x, ast.Raise) for x in n.body):
                guard = True
        (res.ok if guard else res.bad)('C18.V3', f, f.node, '%s: residual equality check raises' % f.name,
                                       'ok' if guard else 'the lock-step equality check of the two residuals is gone')
        # ---- V4 --------------------------------------------------------------
        what = '%s: receiver stores the observation exactly when the residual reaches 0' % f.name
        okv4 = True
        why = ''
        obs_c = canon.c(ast.Name(id=rcal[0].params[1], ctx=ast.Load()), rsub)
        for r in rrows:
            reaches_zero = (r.res is not None and r.res.is_const() and r.res.const == 0) or r.zero_test is True
            if r.zero_test is False:
                reaches_zero = False
            if r.zero_test is None and r.res is not None and not r.res.is_const():
                okv4, why = False, ('a step returns the residual %r without testing whether it has reached 0: the '
                                    'transfer can complete without the observation being stored' % r.res)
            if any(a != obs_c for a in r.stored_args):
                okv4, why = False, ('the receiver stores %s, not the observation it was handed (%s): with two moves '
                                    'in flight the wrong observation is stored' % (
                                        short([a for a in r.stored_args if a != obs_c][0], 60), obs_c))
            if reaches_zero and r.stored != 1:
                okv4, why = False, 'a step that completes the transfer stores the observation %d times' % r.stored
            if not reaches_zero and r.stored != 0:
                okv4, why = False, 'the observation is stored before the transfer is complete'
            if reaches_zero and (not r.slot or r.slot[-1] != 'None'):
                okv4, why = False, 'the receiver\'s transfer slot is not cleared on completion'
        (res.ok if okv4 and rrows else res.bad)('C18.V4', rcal[0], rc, what, 'ok' if okv4 else why)
        for r in srows:
            reaches_zero = (r.res is not None and r.res.is_const() and r.res.const == 0) or r.zero_test is True
            if r.zero_test is False:
                reaches_zero = False
            if r.stored:
                okv4 = False
                res.bad('C18.V4', scal[0], sc, '%s: sender re-stores the observation' % f.name,
                        'the sending tier appends the observation to its own stored list during transfer: '
                        'it would be stored in both tiers')
            if (reaches_zero and (not r.slot or r.slot[-1] != 'None')) or (
                    r.zero_test is None and r.res is not None and not r.res.is_const()):
                okv4 = False
                res.bad('C18.V4', scal[0], sc, '%s: sender keeps the observation in its transfer slot' % f.name,
                        'a step that completes the move (residual %r) leaves the observation in the sending tier\'s '
                        'transfer slot: it is then counted in both tiers (has_capacity_for adds it again)' % r.res)
        # source pops into the transfer slot
        oft = [n for n in walk_no_nested(f.node) if isinstance(n, ast.Call) and call_name(n) == 'observation_for_transfer']
        okp = False
        if len(oft) == 1:
            cal, _ = repo.resolve_call(oft[0], f)
            if len(cal) == 1 and canon.class_name(cal[0].cls.name) == src_cls:
                g = cal[0]
                gfr = Frame(g)
                stored = "%s.observations['stored']" % src_cls
                slot = "%s.observations['transfer']" % src_cls
                effs = [ef for p in cached_paths(g) for ef in path_effects(canon, p.events)]
                pops = [ef for ef in effs if ef.loc == stored and ef.kind == 'pop']
                sets = [ef for ef in effs if ef.loc == slot and ef.kind == 'assign']
                pcn = ProvCanon(repo)
                okp = len(pops) == 1 and len(sets) == 1 and (
                    sets[0].arg.startswith(stored) or (
                        sets[0].value is not None and pcn.p(sets[0].value, sets[0].ev.frame).startswith(stored + '.pop(')))
                res.analysed(g, 1)
        (res.ok if okp else res.bad)('C18.V4', f, oft[0] if oft else f.node,
                                     '%s: source pops the observation from stored into its transfer slot' % f.name,
                                     'ok' if okp else 'the observation is not taken out of the source tier\'s '
                                     'stored list when the move starts: it would be stored in both tiers')
        # ---- V5 --------------------------------------------------------------
        refusal(repo, res, canon, f, src_cls)
        # ---- V6 admission is asked of the DESTINATION tier -----------------------
        admission(repo, res, canon, logic, f, src_cls, dst_cls)
        # ---- V7 the residual that drives the loop is private to this move --------
        private_residual(repo, res, canon, f, rc, sc)


def admission(repo, res, canon, logic, f, src_cls, dst_cls):
    from .common import path_must
    fr = Frame(f)
    loops = [n for n in walk_no_nested(f.node) if isinstance(n, ast.While)]
    if not loops:
        return
    lp = loops[0]
    ok = True
    why = ''
    n = 0
    for p in cached_paths(f):
        idx = [i for i, e in enumerate(p.events) if e.kind == 'loop' and e.node is lp]
        if not idx:
            continue
        n += 1
        must = path_must(logic, p, idx[0], depth=0)
        lits = [l for l in must if l.pol and l.atom.startswith('truthy(') and '.has_capacity_for(' in l.atom]
        if not any(l.atom.startswith('truthy(%s.has_capacity_for(' % dst_cls) for l in lits):
            asked = [l.atom[7:].split('.has_capacity_for')[0] for l in lits]
            ok, why = False, ('the transfer loop is entered after asking %s for room, not the destination tier %s' % (
                asked or 'nobody', dst_cls))
    # ... room for THE observation that is moved: the size asked about is that of the observation
    # handed to the per-step receive (or of the element of the source's stored list that the
    # take-out pops)
    from ..norm import ProvCanon
    pc = ProvCanon(repo)
    plogic = Logic(pc)
    recv = [x for x in walk_no_nested(f.node) if isinstance(x, ast.Call) and call_name(x) == 'receive_observation']
    if ok and n and recv and recv[0].args:
        moved = pc.p(recv[0].args[0], fr)
        wants = {'%s.total_data_size' % moved}
        take = repo.func('%s.observation_for_transfer' % src_cls) if repo.has_func('%s.observation_for_transfer' % src_cls) else None
        if take is not None:
            pops = [x for x in walk_no_nested(take.node) if isinstance(x, ast.Call) and isinstance(x.func, ast.Attribute)
                    and x.func.attr in ('pop', 'popleft')]
            if len(pops) == 1:
                idx_ = '(-1)' if (pops[0].func.attr == 'pop' and not pops[0].args) else (
                    '0' if pops[0].func.attr == 'popleft' else pc.p(pops[0].args[0], Frame(take)))
                wants.add("%s.observations['stored'][%s].total_data_size" % (src_cls, idx_))
        for p in cached_paths(f):
            idx = [i for i, e in enumerate(p.events) if e.kind == 'loop' and e.node is lp]
            if not idx:
                continue
            must = path_must(plogic, p, idx[0], depth=0)
            pre = 'truthy(%s.has_capacity_for(' % dst_cls
            args_ = [l.atom[len(pre):-2] for l in must if l.pol and l.atom.startswith(pre)]
            if args_ and not any(a_ in wants for a_ in args_):
                ok, why = False, ('the destination is asked whether it has room for %s, which is not the size of the observation '
                                  'that is moved (%s)' % (short(args_[0], 70), short(moved, 50)))
    (res.ok if ok and n else res.bad)('C18.V6', f, lp, '%s: the move proceeds only if the destination (%s) has room' % (f.name, dst_cls),
                                      'ok' if ok and n else why + ': a move into a full tier is accepted (free space goes negative) '
                                      'or a legal move is refused')


def private_residual(repo, res, canon, f, rc, sc):
    from ..paths import assigned_names
    fr = Frame(f)
    local = set(assigned_names(f)) - set(f.params)
    cal_r, _ = repo.resolve_call(rc, f)
    cal_s, _ = repo.resolve_call(sc, f)
    args = []
    from ..paths import bind_args
    for cal, call in ((cal_r[0], rc), (cal_s[0], sc)):
        b = bind_args(cal, call, fr)
        if 'residual_data' in b:
            args.append(b['residual_data'][0])
    loops = [n for n in walk_no_nested(f.node) if isinstance(n, ast.While)]
    tests = []
    for lp in loops:
        for n in ast.walk(lp):
            if isinstance(n, ast.If) and isinstance(n.test, ast.Compare) and any(
                    isinstance(x, ast.Break) for s in n.body for x in ast.walk(s)):
                tests.append(n.test.left)
    bad = [a for a in args + tests if not (isinstance(a, ast.Name) and a.id in local)]
    what = '%s: the remaining-data counter of the loop is a local of this move' % f.name
    if bad:
        res.bad('C18.V7', f, bad[0], '%s drives its loop with %s' % (f.name, short(ast.unparse(bad[0]), 50)),
                'the amount still to move is kept in %s, which other processes (a second, overlapping move; the buffer '
                'loop) read and write: two moves in flight drain one counter and an observation ends up in no tier' % short(ast.unparse(bad[0]), 50),
                what=what)
    else:
        res.ok('C18.V7', f, None, what)
    # V8: what the move publishes for the buffer loop is the current residual
    pub = 'Buffer._data_left_to_transfer'
    for lp in loops:
        from .common import iteration_segments
        for seg, how in iteration_segments(f, lp):
            if how != 'back':
                continue
            last_pub = None
            last_upd = None
            holders = set()       # locals that hold the residual the sender returned in this step
            pub_holds = False
            for i, e in enumerate(seg):
                if e.kind == 'stmt' and isinstance(e.node, ast.Assign):
                    tgt = canon.c(e.node.targets[0], fr)
                    if tgt == pub:
                        last_pub = (i, e.node)
                        pub_holds = isinstance(e.node.value, ast.Name) and e.node.value.id in holders
                    if isinstance(e.node.value, ast.Call) and call_name(e.node.value) == 'transfer_observation':
                        last_upd = (i, e.node)
                        holders = {t.id for t in e.node.targets if isinstance(t, ast.Name)}
                    elif isinstance(e.node.value, ast.Name) and e.node.value.id in holders:
                        holders |= {t.id for t in e.node.targets if isinstance(t, ast.Name)}     # a copy
                    else:
                        holders -= {t.id for t in e.node.targets if isinstance(t, ast.Name)}
            if last_pub and last_upd:
                okp = last_pub[0] > last_upd[0] and pub_holds
                (res.ok if okp else res.bad)(
                    'C18.V8', f, last_pub[1], '%s publishes the residual after updating it' % f.name,
                    'ok' if okp else 'the pending-transfer volume seen by the buffer loop is written before this step\'s '
                    'transfer is subtracted: after the move completes it keeps the last chunk instead of 0, and the '
                    'buffer loop\'s tiering decisions (cold->hot return) are made on stale data')


def _norm_case(r):
    return (r.sign, r.small if r.sign != '-' else None)


def _case_name(c):
    s, small = c
    return '(rate %s0%s)' % ('>' if s == '+' else '<' if s == '-' else '?',
                             '' if small is None else ', residual < rate' if small else ', residual >= rate')


def refusal(repo, res, canon, f, src_cls):
    """paths returning the constant False: net effect since entry must be nil"""
    fr = Frame(f)
    stored = "%s.observations['stored']" % src_cls
    slot = "%s.observations['transfer']" % src_cls
    from ..paths import expanded_paths
    n = 0
    for p in expanded_paths(repo, f, 1, lambda cal, call, sp: cal.cls is not None and canon.class_name(cal.cls.name) == src_cls
                            and cal.name not in ('has_capacity_for', 'receive_observation', 'transfer_observation')):
        rets = [e.node for e in p.events if e.kind == 'stmt' and isinstance(e.node, ast.Return)
                and e.frame.depth == 0]
        if not rets or not (isinstance(rets[-1].value, ast.Constant) and rets[-1].value.value is False):
            continue
        n += 1
        writes = {}
        popped = appended = 0
        for e, _efs in effects_along(canon, p.events):
            for ef in _efs:
                if ef.loc == stored and ef.kind == 'pop':
                    popped += 1
                elif ef.loc == stored and ef.kind == 'append':
                    appended += 1
                elif ef.kind in ('assign', 'aug+', 'aug-') and not ef.loc.startswith(('self.', 'pbar')) \
                        and '.' in ef.loc:
                    writes.setdefault(ef.loc, []).append(ef)
        problems = []
        if popped != appended:
            problems.append('%d pop(s) from %s but %d re-append(s)' % (popped, stored, appended))
        for loc, efs in writes.items():
            if loc == slot:
                if efs[-1].arg != 'None':
                    problems.append('%s left as %s' % (slot, efs[-1].arg))
            else:
                problems.append('%s = %s is not undone' % (loc, short(efs[-1].arg, 40)))
        what = '%s: refusal leaves everything as it was' % f.name
        if problems:
            res.bad('C18.V5', f, rets[-1], '%s refusal: %s' % (f.name, '; '.join(problems)),
                    'when the destination lacks room %s returns False but %s: the refused move does not '
                    'leave everything as it was' % (f.name, '; '.join(problems)), path=p.describe(), what=what)
        else:
            res.ok('C18.V5', f, rets[-1], what)
    if not n:
        res.bad('C18.V5', f, f.node, '%s has no refusing path' % f.name,
                'a move whose destination lacks room is no longer refused')
