"""Shared facts about the event lists: emit sites, clears, readers."""
import ast

from ..index import AnalysisError, is_spawn, walk_no_nested
from ..norm import Canon, effects_of_event
from ..paths import Frame, cached_paths
from .common import call_name


def add_event_defs(repo):
    """class canonical name -> FuncInfo of its _add_event"""
    canon = Canon(repo)
    out = {}
    for f in repo.all_functions():
        if f.name == '_add_event' and f.cls is not None:
            out[canon.class_name(f.cls.name)] = f
    return out


def emit_sites(repo):
    """[(owner class, resource, event, caller FuncInfo, call node)] for every
    constant-string _add_event call in topsim."""
    canon = Canon(repo)
    out = []
    for f in repo.all_functions():
        for n in walk_no_nested(f.node):
            if isinstance(n, ast.Call) and call_name(n) == '_add_event':
                cals, exact = repo.resolve_call(n, f)
                owner = canon.class_name(cals[0].cls.name) if cals and cals[0].cls else '?'
                vals = []
                for a in n.args[1:3]:
                    vals.append(a.value if isinstance(a, ast.Constant) else None)
                for k in n.keywords:
                    if k.arg in ('resource', 'event') and isinstance(k.value, ast.Constant):
                        vals.append(k.value.value)
                res_, ev_ = (vals + [None, None])[:2]
                out.append((owner, res_, ev_, f, n))
    return out


def list_location(repo, adddef):
    """the list a class's _add_event appends to, e.g. 'Buffer.events'"""
    canon = Canon(repo)
    fr = Frame(adddef)
    for n in walk_no_nested(adddef.node):
        if isinstance(n, ast.Call) and isinstance(n.func, ast.Attribute) and n.func.attr == 'append':
            return canon.c(n.func.value, fr)
    return None


def clear_sites(repo, loc):
    """[(FuncInfo, node)] statements that empty the list at `loc`"""
    canon = Canon(repo)
    out = []
    for f in repo.all_functions():
        fr = Frame(f)
        for n in walk_no_nested(f.node):
            if isinstance(n, ast.Assign):
                for t in n.targets:
                    if isinstance(t, (ast.Attribute, ast.Subscript)) and canon.c(t, fr) == loc:
                        if f.name != '__init__':
                            out.append((f, n))
            elif isinstance(n, ast.Call) and isinstance(n.func, ast.Attribute) and \
                    n.func.attr == 'clear' and canon.c(n.func.value, fr) == loc:
                out.append((f, n))
            elif isinstance(n, ast.Delete):
                for t in n.targets:
                    if isinstance(t, ast.Subscript) and canon.c(t.value, fr) == loc:
                        out.append((f, n))
    return out


def reads_in(repo, func, locs):
    """locations among `locs` that func reads (Load context)"""
    canon = Canon(repo)
    fr = Frame(func)
    seen = set()
    for n in walk_no_nested(func.node):
        if isinstance(n, (ast.Attribute, ast.Subscript)) and isinstance(n.ctx, ast.Load):
            c = canon.c(n, fr)
            if c in locs:
                seen.add(c)
    return seen
