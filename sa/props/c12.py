"""C12 -- the per-timestep table reports the true state, one row per step.

M1 the monitor is the first process registered by start
M2 each iteration of Monitor.run appends exactly one row and sleeps exactly one step
M3 column provenance table
M4 the counters behind the cluster columns are true (= C02.P4)
"""
import ast
import re

from ..index import AnalysisError, walk_no_nested
from ..norm import Affine, Canon, ProvCanon, affine, effects_of_event, effects_along
from ..paths import Frame, cached_paths, contains_yield
from ..simpy_model import registration_order, witness
from .common import call_name, iteration_segments, short
from .counters import check_coupling

FLOORS = {'C12.M1': 1, 'C12.M2': 1, 'C12.M3': 11, 'C12.M4': 1, 'C12.M5': 8, 'C12.M6': 10}

U = "Cluster._usage_data['%s']"
COLUMNS = {
    'Cluster.to_df': {
        'available_resources': U % 'available',
        'ingest_resources': U % 'ingest',
        'running_tasks': U % 'running_tasks',
        'finished_tasks': U % 'finished_tasks',
        'provisioned_observations': "len(Cluster._resources['idle'])",
    },
    'Buffer.to_df': {
        'hot_buffer': 'HotBuffer.current_capacity',
        'cold_buffer': 'ColdBuffer.current_capacity',
        'stored': "len(ColdBuffer.observations['stored']) + len(HotBuffer.observations['stored'])",
    },
    'Telescope.to_df': {
        'observations_waiting': 'count(status == RunStatus.WAITING)',
        'observations_finished': 'count(status == RunStatus.FINISHED)',
    },
    'Scheduler.to_df': {
        'scheduler_observation_queue': 'len(Scheduler.observation_queue)',
    },
}


def _scalar(v):
    return v.elts[0] if isinstance(v, (ast.List, ast.Tuple)) and len(v.elts) == 1 else v


def _dict_entries(f, e, d=0):
    """{column: value expr} spelled by a dictionary expression: a display, dict(k=v), a local
    naming one, or {name: [value] for name, value in <such a dictionary>.items()}"""
    from ..paths import assigned_names
    if d > 5:
        return None
    if isinstance(e, ast.Dict):
        if all(isinstance(k, ast.Constant) and isinstance(k.value, str) for k in e.keys):
            return {k.value: _scalar(v) for k, v in zip(e.keys, e.values)}
        return None
    if isinstance(e, ast.Call) and isinstance(e.func, ast.Name) and e.func.id == 'dict' and not e.args:
        return {k.arg: _scalar(k.value) for k in e.keywords if k.arg}
    if isinstance(e, ast.Name):
        defs = assigned_names(f).get(e.id, [])
        if len(defs) == 1 and isinstance(defs[0], ast.Assign):
            ent = _dict_entries(f, defs[0].value, d + 1)
            if ent is None:
                return None
            # later item stores into the same local
            for n in walk_no_nested(f.node):
                if isinstance(n, ast.Assign) and len(n.targets) == 1 and isinstance(n.targets[0], ast.Subscript) \
                        and isinstance(n.targets[0].value, ast.Name) and n.targets[0].value.id == e.id \
                        and isinstance(n.targets[0].slice, ast.Constant):
                    ent[n.targets[0].slice.value] = _scalar(n.value)
            return ent
        return None
    if isinstance(e, ast.DictComp) and len(e.generators) == 1 and not e.generators[0].ifs:
        g = e.generators[0]
        it = g.iter
        if isinstance(it, ast.Call) and isinstance(it.func, ast.Attribute) and it.func.attr == 'items' and not it.args \
                and isinstance(g.target, ast.Tuple) and len(g.target.elts) == 2 and all(
                    isinstance(x, ast.Name) for x in g.target.elts):
            kn, vn = g.target.elts[0].id, g.target.elts[1].id
            val = _scalar(e.value)
            if isinstance(e.key, ast.Name) and e.key.id == kn and isinstance(val, ast.Name) and val.id == vn:
                return _dict_entries(f, it.func.value, d + 1)
        # {column: [value] for column, value in <list of (name, value) pairs>}
        pairs = it
        if isinstance(pairs, ast.Name):
            defs = assigned_names(f).get(pairs.id, [])
            pairs = defs[0].value if len(defs) == 1 and isinstance(defs[0], ast.Assign) else None
        if isinstance(pairs, (ast.List, ast.Tuple)) and isinstance(g.target, ast.Tuple) and len(g.target.elts) == 2 \
                and all(isinstance(x, ast.Name) for x in g.target.elts) and all(
                    isinstance(x, ast.Tuple) and len(x.elts) == 2 and isinstance(x.elts[0], ast.Constant)
                    and isinstance(x.elts[0].value, str) for x in pairs.elts):
            kn, vn = g.target.elts[0].id, g.target.elts[1].id
            val = _scalar(e.value)
            if isinstance(e.key, ast.Name) and e.key.id == kn and isinstance(val, ast.Name) and val.id == vn:
                return {x.elts[0].value: x.elts[1] for x in pairs.elts}
    if isinstance(e, (ast.List, ast.Tuple)) and len(e.elts) == 1:
        return _dict_entries(f, e.elts[0], d + 1)       # DataFrame([row])
    return None


def frame_columns(f):
    """{column: (statement, value expr)} of the data frame a to_df builds: item stores df[col] = [v]
    and the dictionary given to pd.DataFrame(...)"""
    cols = {}
    for n in walk_no_nested(f.node):
        if isinstance(n, ast.Call) and call_name(n) == 'DataFrame' and n.args:
            ent = _dict_entries(f, n.args[0])
            for k, v in (ent or {}).items():
                cols[k] = (n, v)
    for n in walk_no_nested(f.node):
        if isinstance(n, ast.Assign) and len(n.targets) == 1 and isinstance(n.targets[0], ast.Subscript) \
                and isinstance(n.targets[0].slice, ast.Constant) and isinstance(n.targets[0].slice.value, str):
            cols[n.targets[0].slice.value] = (n, _scalar(n.value))
    return cols


def column_value(f, col):
    n, v = frame_columns(f).get(col, (None, None))
    if isinstance(v, ast.Name):
        from .common import resolve_name_chain
        from ..paths import assigned_names
        v2 = resolve_name_chain(f, v)
        defs = assigned_names(f).get(v2.id, []) if isinstance(v2, ast.Name) else []
        if len(defs) == 1 and isinstance(defs[0], ast.Assign) and len(defs[0].targets) == 1 and isinstance(
                defs[0].targets[0], ast.Name):
            return n, defs[0].value
        return n, v2
    return n, v


def count_status(repo, canon, f, expr):
    """observations_waiting(): sum([1 if x.status == S else 0 for x in self.observations]) -> S
    (also a counting loop: c = 0; for x in observations: if x.status == S: c += 1)"""
    if isinstance(expr, ast.Call) and isinstance(expr.func, ast.Attribute):
        cals, exact = repo.resolve_call(expr, f)
        if len(cals) == 1:
            g = cals[0]
            from .common import counting_parts, resolve_name_chain
            for n in walk_no_nested(g.node):
                if isinstance(n, ast.Return) and isinstance(n.value, ast.Name):
                    nm = resolve_name_chain(g, n.value)
                    cp = counting_parts(g, nm.id) if isinstance(nm, ast.Name) else None
                    if cp is not None:
                        lp, conds = cp
                        if canon.c(lp.iter, Frame(g)) == 'Instrument.observations' and len(conds) == 1 and \
                                conds[0][1] and isinstance(conds[0][0], ast.Compare) and isinstance(
                                conds[0][0].ops[0], (ast.Eq, ast.Is)):
                            l, r = conds[0][0].left, conds[0][0].comparators[0]
                            for a, b in ((l, r), (r, l)):
                                if isinstance(a, ast.Attribute) and a.attr == 'status':
                                    return 'count(status == %s)' % ast.unparse(b)
            # any counting idiom the affine domain knows (Counter(...)[S], sum(1 for ... if ...), ...)
            from ..norm import COUNT_INFO
            for n in walk_no_nested(g.node):
                if isinstance(n, ast.Return) and n.value is not None:
                    a = affine(canon, n.value, Frame(g))
                    ks = [k for k in a.terms if k in COUNT_INFO]
                    if len(ks) == 1 and len(a.terms) == 1 and a.terms[ks[0]] == 1 and a.const == 0:
                        it, lits = COUNT_INFO[ks[0]]
                        if it == 'Instrument.observations' and len(lits) == 1 and lits[0].pol:
                            m_ = re.fullmatch(r'(\S+) == \$1\.status', lits[0].atom) or re.fullmatch(
                                r'\$1\.status == (\S+)', lits[0].atom)
                            if m_:
                                return 'count(status == %s)' % m_.group(1)
            for n in walk_no_nested(g.node):
                if isinstance(n, ast.Return) and n.value is not None:
                    v = n.value
                    comp = None
                    if isinstance(v, ast.Call) and call_name(v) in ('sum', 'len') and v.args:
                        comp = v.args[0]
                    if isinstance(comp, (ast.ListComp, ast.GeneratorExp)):
                        src = canon.c(comp.generators[0].iter, Frame(g))
                        tests = []
                        if isinstance(comp.elt, ast.IfExp):
                            tests.append(comp.elt.test)
                            if not (isinstance(comp.elt.body, ast.Constant) and comp.elt.body.value == 1
                                    and isinstance(comp.elt.orelse, ast.Constant) and comp.elt.orelse.value == 0):
                                return None
                        tests += comp.generators[0].ifs
                        if len(tests) == 1 and isinstance(tests[0], ast.Compare) and isinstance(
                                tests[0].ops[0], (ast.Eq, ast.Is)) and src == 'Instrument.observations':
                            l, r = tests[0].left, tests[0].comparators[0]
                            for a, b in ((l, r), (r, l)):
                                if isinstance(a, ast.Attribute) and a.attr == 'status':
                                    return 'count(status == %s)' % ast.unparse(b)
    # the counting expression written in place (or left there by inlining the query)
    from ..norm import COUNT_INFO
    try:
        a = affine(canon, expr, Frame(f))
    except RecursionError:
        return None
    ks = [k for k in a.terms if k in COUNT_INFO]
    if len(ks) == 1 and len(a.terms) == 1 and a.terms[ks[0]] == 1 and a.const == 0:
        it, lits = COUNT_INFO[ks[0]]
        if it == 'Instrument.observations' and len(lits) == 1 and lits[0].pol:
            m_ = re.fullmatch(r'(\S+) == \$1\.status', lits[0].atom) or re.fullmatch(r'\$1\.status == (\S+)', lits[0].atom)
            if m_:
                return 'count(status == %s)' % m_.group(1)
    return None


def check(repo, res, tier):
    canon = Canon(repo)
    res.rule('C12.M1', 'Monitor.run is the first process Simulation.start registers')
    res.rule('C12.M2', 'every cycle of Monitor.run appends one row and yields timeout(1)')
    res.rule('C12.M3', 'each reported column reads the state field it names')
    res.rule('C12.M4', 'usage counters move with their containers in every atomic block of the Cluster')
    from . import c18
    from .common import borrow
    res.rule('C12.M7', 'adopted C18.V4: the stored column counts an observation in exactly one tier -- the receiving tier '
                       'appends it when (and only when) its transfer completes')
    borrow(repo, res, tier, c18, {'C18.V4'}, 'C12.M7')
    from . import c02 as _c02
    res.rule('C12.M9', 'adopted C02.P10: the cluster counters behind the table start as the sizes of their containers')
    borrow(repo, res, tier, _c02, {'C02.P10'}, 'C12.M9')
    from .c10 import check_shared_state
    check_shared_state(repo, res, 'C12.M8', 'the counters the table reports are shared with other Cluster objects: a second '
                       'simulation in the process starts with the first one\'s numbers')
    w = witness()
    res.extra['simpy_witness'] = w
    res.assumptions += ['SimPy order model: processes registered first wake first in every step']
    # M1
    order = registration_order(repo)
    start = repo.func('Simulation.start')
    res.analysed(start, 0)
    if order and order[0][0] == 'Monitor':
        res.ok('C12.M1', start, order[0][1], 'first registered process is Monitor.run',
               ' > '.join(c for c, _ in order))
    else:
        res.bad('C12.M1', start, order[0][1] if order else start.node,
                'registration order %s' % ' > '.join(c for c, _ in order),
                'the monitor is not the first process of a timestep: row t would report a state in '
                'which some actors have already acted in step t')
    # M2
    pc = ProvCanon(repo)
    m = repo.func('Monitor.run')
    res.analysed(m, len(cached_paths(m)))
    loops = [n for n in walk_no_nested(m.node) if isinstance(n, ast.While)]
    if len(loops) != 1:
        res.bad('C12.M2', m, m.node, '%d loops in Monitor.run' % len(loops), 'unexpected shape')
    else:
        lp = loops[0]
        ok = True
        why = ''
        from ..paths import is_const_true
        if not is_const_true(lp.test):
            ok, why = False, 'the monitor loop can stop (%s): later steps get no row' % short(ast.unparse(lp.test))
        for seg, how in iteration_segments(m, lp):
            if how != 'back':
                ok, why = False, 'the monitor loop can be left by %s' % how
                continue
            rows = 0
            sleeps = []
            for e in seg:
                if e.kind != 'stmt':
                    continue
                n = e.node
                if isinstance(n, ast.Assign) and canon.c(n.targets[0], e.frame) == 'Monitor.df':
                    v = n.value
                    vp = pc.p(v, e.frame)
                    if isinstance(v, ast.Call) and call_name(v) == 'concat' and \
                            'Monitor.collate_actor_dataframes()' in vp and 'Monitor.df' in vp:
                        rows += 1
                    else:
                        ok, why = False, 'the table is rebuilt by `%s`' % short(ast.unparse(n))
                for y in ast.walk(n):
                    if isinstance(y, ast.Yield):
                        v = y.value
                        if isinstance(v, ast.Call) and call_name(v) == 'timeout' and v.args:
                            sleeps.append(canon.c(v.args[0], e.frame))
                        else:
                            sleeps.append('?')
            if rows != 1:
                ok, why = False, 'a cycle of the monitor appends %d rows' % rows
            if sleeps not in (['1'], ['TIMESTEP']):
                ok, why = False, 'a cycle of the monitor sleeps %s, not one timestep' % sleeps
        (res.ok if ok else res.bad)('C12.M2', m, lp, 'one row and one timestep per monitor cycle',
                                    'ok' if ok else why)
    # collate_actor_dataframes joins the four actor snapshots
    cad = repo.func('Monitor.collate_actor_dataframes')
    fr = Frame(cad)
    got = set()
    for n in walk_no_nested(cad.node):
        if isinstance(n, ast.Call) and call_name(n) == 'to_df' and isinstance(n.func, ast.Attribute):
            got.add(canon.c(n.func.value, fr))
    need = {'Cluster', 'Buffer', 'Instrument', 'Scheduler'}
    joined = {a.id for n in walk_no_nested(cad.node) if isinstance(n, ast.Call) and call_name(n) == 'join'
              for l in n.args if isinstance(l, ast.List) for a in l.elts if isinstance(a, ast.Name)}
    (res.ok if need <= got else res.bad)('C12.M3', cad, cad.node, 'row joins cluster, buffer, instrument, scheduler snapshots',
                                         'ok' if need <= got else 'the row no longer contains the snapshot of %s' % sorted(need - got))
    # M3
    for q, cols in COLUMNS.items():
        f = repo.func(q)
        fr = Frame(f)
        res.analysed(f, 1)
        for col, want in cols.items():
            n, v = column_value(f, col)
            what = 'column %s <- %s' % (col, want)
            if v is None:
                res.bad('C12.M3', f, f.node, what, 'the column %s is no longer reported' % col)
                continue
            if want.startswith('count('):
                got = count_status(repo, canon, f, v)
                ok = got == want
                gs = got or short(pc.p(v, fr))
            elif want.startswith('len(') or ' + ' in want:
                e = v
                while isinstance(e, ast.Call) and isinstance(e.func, ast.Name) and e.func.id == 'int':
                    e = e.args[0]
                from .common import path_affine_env
                paths_ = cached_paths(f)
                env_ = {}
                for p_ in paths_:
                    idx_ = [i for i, ev in enumerate(p_.events) if ev.node is n]
                    if idx_:
                        env_ = path_affine_env(canon, p_, p_.events[idx_[0]].frame, idx_[0])
                        break
                a = affine(canon, e, fr, env_ or None)
                wa = affine(canon, ast.parse(want_src(want), mode='eval').body, None)
                gs = repr(a)
                ok = gs == want_norm(want)
            else:
                gs = canon.c(v, fr)
                ok = gs == want
            (res.ok if ok else res.bad)('C12.M3', f, n, what, gs if ok else
                                        'the column "%s" reports %s, not %s' % (col, gs, want))
    # M4
    check_coupling(repo, res, 'C12.M4', canon)
    # M5: taking the snapshot does not disturb the state it reports
    from .purity import REPORTING, check_pure
    res.rule('C12.M5', 'the snapshot functions behind a row are side-effect free')
    check_pure(repo, res, 'C12.M5', REPORTING, 'taking a row would change the state later rows report')
    # M6: order-model side condition -- only Task.do_work may sleep other than one step
    res.rule('C12.M6', 'every process except Task.do_work sleeps exactly one timestep at a time, so the monitor '
                       'stays the first process of every step (SimPy orders equal-time timeouts by creation)')
    unit_sleepers(repo, res, canon, 'C12.M6')


def unit_sleepers(repo, res, canon, rule):
    n = 0
    for f in repo.all_functions():
        if not f.is_generator or f.module.name.startswith(('topsim.utils', 'topsim.recipes')):
            continue
        fr = Frame(f)
        for x in walk_no_nested(f.node):
            if isinstance(x, ast.Call) and call_name(x) == 'timeout' and x.args:
                n += 1
                a = canon.c(x.args[0], fr)
                if a in ('1', 'TIMESTEP'):
                    res.ok(rule, f, x, '%s sleeps one step (line %d)' % (f.qual, x.lineno))
                elif f.qual == 'Task.do_work':
                    res.ok(rule, f, x, 'Task.do_work sleeps %s (it writes only its own task fields)' % short(a, 50))
                else:
                    res.bad(rule, f, x, '%s sleeps %s' % (f.qual, short(a, 60)),
                            '%s yields a timeout of %s instead of one timestep: its wake-up is queued before '
                            'the monitor\'s for that instant, so from then on it acts BEFORE the monitor and '
                            'row t no longer shows the state at the beginning of step t' % (f.qual, short(a, 60)))
    # do_work must write nothing but its own fields
    d = repo.func('Task.do_work')
    dfr = Frame(d)
    bad = None
    for p in cached_paths(d):
        for e, _efs in effects_along(canon, p.events):
            for ef in _efs:
                root = ef.loc.split('.', 1)[0].split('[', 1)[0]
                if root not in ('Task', 'self'):
                    bad = ef
    (res.ok if bad is None else res.bad)(rule, d, bad.node if bad else None,
                                         'Task.do_work (the only non-unit sleeper) writes only its own fields',
                                         'ok' if bad is None else 'do_work writes %s while it can wake anywhere inside a step' % bad.loc)


def want_src(w):
    return '0'


def want_norm(w):
    parts = sorted(p.strip() for p in w.split(' + '))
    return ' + '.join(parts)
