"""C10 -- simulations are reproducible (determinism lint, package-wide).

D1 no order-sensitive iteration over a hash-ordered set
D2 no unseeded randomness
D3 wall clock / object identity only into the excluded sinks
D4 objects printed into the tables have an address-free text form
"""
import ast

from ..index import AnalysisError, walk_no_nested
from ..norm import Canon
from ..paths import Frame, assigned_names
from .common import call_name, short

FLOORS = {'C10.D1': 3, 'C10.D2': 3, 'C10.D3': 3, 'C10.D4': 4}

# dead or non-importable code, listed with the reason (not analysed)
SKIP_MODULES = {
    'topsim.utils.experiment': 'experiment driver, not part of a simulation run',
    'topsim.recipes.default': 'unfinished recipe, imports nothing that runs',
    'topsim.recipes': 'package marker',
}

ORDER_FREE_CONSUMERS = {'len', 'sum', 'any', 'all', 'set', 'frozenset', 'min', 'max'}
CLOCK_SINKS = {
    # canonical target -> why it is outside the property
    'Scheduler.algtime': 'wall-clock algorithm timing column (excluded by the property)',
    'Simulation._timestamp': 'file/key naming only',
}


def is_set_expr(e, setnames):
    if isinstance(e, (ast.Set, ast.SetComp)):
        return True
    if isinstance(e, ast.Call) and isinstance(e.func, ast.Name) and e.func.id in ('set', 'frozenset'):
        return True
    if isinstance(e, ast.Name) and e.id in setnames:
        return True
    if isinstance(e, ast.BinOp) and isinstance(e.op, (ast.BitOr, ast.BitAnd, ast.Sub, ast.BitXor)):
        return is_set_expr(e.left, setnames) or is_set_expr(e.right, setnames)
    if isinstance(e, ast.Call) and isinstance(e.func, ast.Attribute) and e.func.attr in (
            'union', 'intersection', 'difference', 'symmetric_difference', 'copy') and \
            is_set_expr(e.func.value, setnames):
        return True
    return False


def set_typed_names(repo):
    """function qual -> names (locals and parameters) that may hold a set.
    Parameters become set-typed when a resolved call site passes a set."""
    sets = {}
    funcs = [f for f in repo.all_functions()]

    def local_pass(f):
        names = sets.setdefault(f.qual, set())
        changed = True
        while changed:
            changed = False
            for n in walk_no_nested(f.node):
                tgt = None
                if isinstance(n, ast.Assign) and len(n.targets) == 1 and isinstance(n.targets[0], ast.Name):
                    if is_set_expr(n.value, names):
                        tgt = n.targets[0].id
                elif isinstance(n, ast.Assign) and len(n.targets) == 1 and isinstance(
                        n.targets[0], ast.Tuple) and isinstance(n.value, ast.Call):
                    # tuple results of resolved topsim calls: positions returning a set-typed name
                    cals, exact = repo.resolve_call(n.value, f)
                    for cal in cals:
                        pos = returned_set_positions(cal, sets.get(cal.qual, set()))
                        for i, t in enumerate(n.targets[0].elts):
                            if i in pos and isinstance(t, ast.Name) and t.id not in names:
                                names.add(t.id)
                                changed = True
                if tgt and tgt not in names:
                    names.add(tgt)
                    changed = True
        return names

    def returned_set_positions(cal, names):
        pos = set()
        for n in walk_no_nested(cal.node):
            if isinstance(n, ast.Return) and isinstance(n.value, ast.Tuple):
                for i, e in enumerate(n.value.elts):
                    if is_set_expr(e, names):
                        pos.add(i)
        return pos

    for _ in range(6):
        before = {k: set(v) for k, v in sets.items()}
        for f in funcs:
            names = local_pass(f)
            for n in walk_no_nested(f.node):
                if not isinstance(n, ast.Call):
                    continue
                cals, exact = repo.resolve_call(n, f)
                for cal in cals:
                    params = list(cal.params)
                    if cal.cls is not None and params:
                        params = params[1:]
                    for i, a in enumerate(n.args):
                        if i < len(params) and is_set_expr(a, names):
                            sets.setdefault(cal.qual, set()).add(params[i])
                    for kw in n.keywords:
                        if kw.arg and is_set_expr(kw.value, names) and (
                                kw.arg in cal.params or kw.arg in cal.kwonly):
                            sets.setdefault(cal.qual, set()).add(kw.arg)
        if before == sets:
            break
    return sets


def key_is_total(keyexpr):
    """sorted(..., key=K): K is total when the unique `.id` is part of it."""
    if keyexpr is None:
        return False
    if isinstance(keyexpr, ast.Lambda) and len(keyexpr.args.args) == 1:
        x = keyexpr.args.args[0].arg

        def is_id(e):
            # the id itself (or an injective wrapping of it): a value COMPUTED from the id -- its last
            # component, its length, int(...) of a part -- can tie for different ids
            while isinstance(e, ast.Call) and isinstance(e.func, ast.Name) and e.func.id in ('str', 'repr', 'tuple') \
                    and len(e.args) == 1 and not e.keywords:
                e = e.args[0]
            return isinstance(e, ast.Attribute) and e.attr in ('id', 'tid') and isinstance(e.value, ast.Name) and e.value.id == x
        body = keyexpr.body
        if isinstance(body, (ast.Tuple, ast.List)):
            return any(is_id(c) for c in body.elts)
        return is_id(body)
    if isinstance(keyexpr, ast.Call) and call_name(keyexpr) == 'attrgetter':
        return any(isinstance(a, ast.Constant) and a.value in ('id', 'tid') for a in keyexpr.args)
    return False


def body_is_commutative(body):
    """loop body whose effects do not depend on iteration order: adds to sets,
    counter increments, nested ifs/loops of the same, pass/continue."""
    for s in body:
        if isinstance(s, (ast.Pass, ast.Continue)):
            continue
        if isinstance(s, ast.Expr) and isinstance(s.value, ast.Constant):
            continue
        if isinstance(s, ast.Expr) and isinstance(s.value, ast.Call) and isinstance(
                s.value.func, ast.Attribute) and s.value.func.attr in ('add', 'update', 'discard', 'debug', 'info'):
            continue
        if isinstance(s, ast.AugAssign) and isinstance(s.op, (ast.Add, ast.Sub, ast.BitOr)):
            continue
        if isinstance(s, ast.If):
            if body_is_commutative(s.body) and body_is_commutative(s.orelse):
                continue
            return False
        if isinstance(s, ast.For):
            if body_is_commutative(s.body) and body_is_commutative(s.orelse):
                continue
            return False
        return False
    return True


def check(repo, res, tier):
    canon = Canon(repo)
    res.rule('C10.D1', 'iteration over a set is order-insensitive or goes through sorted(key containing .id)')
    res.rule('C10.D2', 'every random generator is seeded (default_rng(seed)); no global-state draws')
    res.rule('C10.D3', 'time.time()/datetime.now()/id() reach only the excluded timing/name sinks')
    res.rule('C10.D4', 'every scheduling algorithm printed into the tables defines __repr__/__str__')
    res.rule('C10.D5', 'adopted C15.Y2 (seeding itself is C10.D2): every delay value is drawn for that call and is a '
                       'function of (seed, arguments) only -- no cache or generator state carried between calls')
    res.assumptions += ['SimPy event order is deterministic (time, priority, insertion id); checked in sa/simpy_model',
                        'dict iteration is insertion-ordered (CPython >= 3.7)']
    sets = set_typed_names(repo)
    for f in repo.all_functions():
        if f.module.name in SKIP_MODULES:
            continue
        res.analysed(f, 0)
        names = sets.get(f.qual, set())
        check_d1(res, f, names)
        check_d2(res, f)
        check_d3(res, canon, f)
    check_seed_attrs(repo, res)
    check_shared_state(repo, res, 'C10.D6',
                       'a second simulation in the same process starts from the first one\'s state: its outputs differ '
                       'from a run of the same configuration on its own')
    for why in sorted(SKIP_MODULES.items()):
        res.note('skipped %s: %s' % why)
    from . import c15
    from .common import borrow
    borrow(repo, res, tier, c15, {'C15.Y2'}, 'C10.D5')
    # D4
    for c in repo.subclasses('Scheduling'):
        run = c.find_method('run')
        if run is None or len(run.params) < 6:
            res.note('D4: %s.run does not take the five scheduler arguments; it cannot be driven '
                     'by Scheduler and is not printed' % c.name)
            continue
        has = any(m in k.methods for k in c.mro for m in ('__repr__', '__str__'))
        if has:
            res.ok('C10.D4', run, c.node, '%s has an address-free text form' % c.name)
        else:
            res.bad('C10.D4', run, c.node, 'class %s lacks __repr__/__str__' % c.name,
                    'str(%s()) contains a memory address and is written into the task and '
                    'per-timestep tables' % c.name)
    for cn in ('DelayModel',):
        c = repo.cls(cn)
        has = any(m in k.methods for k in c.mro for m in ('__repr__', '__str__'))
        f0 = c.find_method('__init__')
        (res.ok if has else res.bad)('C10.D4', f0, c.node, '%s has an address-free text form' % cn,
                                     'ok' if has else 'str(%s) contains a memory address' % cn)


def check_seed_attrs(repo, res):
    """D2b: what is passed as the seed of a generator (self.seed) is the constructor argument itself"""
    from ..norm import ProvCanon
    from ..paths import Frame
    pc = ProvCanon(repo)
    seen = set()
    for f in repo.all_functions():
        if f.module.name in SKIP_MODULES or f.cls is None:
            continue
        for n in walk_no_nested(f.node):
            if isinstance(n, ast.Call) and call_name(n) in ('default_rng', 'RandomState', 'Random', 'seed') and n.args \
                    and isinstance(n.args[0], ast.Attribute) and isinstance(n.args[0].value, ast.Name) \
                    and n.args[0].value.id == 'self':
                seen.add((f.cls.name, n.args[0].attr))
    for cn, attr in sorted(seen):
        cls = repo.cls(cn)
        for m in cls.methods.values():
            fr = Frame(m)
            for n in walk_no_nested(m.node):
                if isinstance(n, ast.Assign) and any(isinstance(t, ast.Attribute) and t.attr == attr and isinstance(
                        t.value, ast.Name) and t.value.id == 'self' for t in n.targets):
                    P = pc.p(n.value, fr)
                    what = '%s.%s <- %s' % (cn, attr, short(P, 50))
                    from ..paths import assigned_names as _an
                    if P in m.params and not _an(m).get(P):
                        res.ok('C10.D2', m, n, what, 'the constructor argument, unchanged')
                    elif P in m.params:
                        res.bad('C10.D2', m, n, what,
                                'the seed argument `%s` is reassigned in %s before it is stored: some seed values are replaced '
                                '(e.g. by None = fresh entropy), and two runs with that seed differ' % (P, m.qual))
                    else:
                        res.bad('C10.D2', m, n, what,
                                'the seed stored for the generators is %s, not the seed that was passed: some seed values '
                                'are replaced (e.g. by None = fresh entropy), and two runs with that seed differ' % short(P, 80))


def check_shared_state(repo, res, rule, consequence):
    """mutable state shared between instances or calls: (a) an instance attribute bound to a class-level
    mutable display without a copy; (b) a mutable default argument that is changed, stored or returned"""
    res.rule(rule, 'no instance attribute aliases a class-level mutable, no mutable default argument is changed or handed on')
    n_seen = 0
    for cls in repo.classes.values():
        if not cls.module.name.startswith('topsim') or cls.module.name in SKIP_MODULES:
            continue
        shared = {}
        for b in cls.node.body:
            if isinstance(b, ast.Assign) and len(b.targets) == 1 and isinstance(b.targets[0], ast.Name) and isinstance(
                    b.value, (ast.Dict, ast.List, ast.Set)) or (isinstance(b, ast.Assign) and isinstance(b.value, ast.Call)
                                                             and call_name(b.value) in ('dict', 'list', 'set', 'defaultdict')
                                                             and len(b.targets) == 1 and isinstance(b.targets[0], ast.Name)):
                shared[b.targets[0].id] = b
        for m in cls.methods.values():
            for n in walk_no_nested(m.node):
                if isinstance(n, ast.Assign) and isinstance(n.value, ast.Attribute) and n.value.attr in shared and (
                        isinstance(n.value.value, ast.Name) and n.value.value.id in ('self', 'cls', cls.name)
                        or (isinstance(n.value.value, ast.Call) and call_name(n.value.value) == 'type')) and any(
                        isinstance(t, ast.Attribute) for t in n.targets):
                    n_seen += 1
                    res.bad(rule, m, n, '%s aliases the class-level %s' % (short(ast.unparse(n.targets[0])), n.value.attr),
                            '`%s` binds an instance attribute to the class-level container %s.%s itself (no copy): every '
                            'instance writes into one shared object -- %s' % (short(ast.unparse(n)), cls.name, n.value.attr, consequence))
    for f in repo.all_functions():
        if f.module.name in SKIP_MODULES:
            continue
        a = f.node.args
        params = a.args + a.kwonlyargs
        defaults = dict(zip([x.arg for x in a.args][len(a.args) - len(a.defaults):], a.defaults))
        for kw, d in zip(a.kwonlyargs, a.kw_defaults):
            if d is not None:
                defaults[kw.arg] = d
        for pn, d in defaults.items():
            mutable = isinstance(d, (ast.Dict, ast.List, ast.Set)) or (
                isinstance(d, ast.Call) and call_name(d) in ('dict', 'list', 'set', 'defaultdict', 'deque'))
            if not mutable:
                continue
            n_seen += 1
            uses = []
            for n in walk_no_nested(f.node):
                if isinstance(n, ast.Call) and isinstance(n.func, ast.Attribute) and isinstance(n.func.value, ast.Name) \
                        and n.func.value.id == pn and n.func.attr in ('append', 'add', 'update', 'extend', 'insert', 'pop',
                                                                     'remove', 'clear', 'setdefault', 'discard', 'popitem'):
                    uses.append(n)
                elif isinstance(n, ast.Subscript) and isinstance(n.ctx, (ast.Store, ast.Del)) and isinstance(
                        n.value, ast.Name) and n.value.id == pn:
                    uses.append(n)
                elif isinstance(n, ast.AugAssign) and isinstance(n.target, ast.Name) and n.target.id == pn:
                    uses.append(n)
                elif isinstance(n, ast.Return) and n.value is not None and any(
                        isinstance(x, ast.Name) and x.id == pn for x in ast.walk(n.value)):
                    uses.append(n)
                elif isinstance(n, ast.Call) and any(isinstance(x, ast.Name) and x.id == pn for x in n.args) and not (
                        isinstance(n.func, ast.Name) and n.func.id in ('len', 'list', 'sorted', 'set', 'tuple', 'dict', 'str')):
                    uses.append(n)
                elif isinstance(n, ast.Assign) and isinstance(n.value, ast.Name) and n.value.id == pn and any(
                        isinstance(t, (ast.Attribute, ast.Subscript)) for t in n.targets):
                    uses.append(n)
            if uses:
                res.bad(rule, f, uses[0], '%s(%s=%s) is changed or handed on' % (f.qual, pn, short(ast.unparse(d), 20)),
                        'the default value of parameter `%s` of %s is one mutable object shared by every call that omits the '
                        'argument, and `%s` changes it or hands it on: state leaks from one call (workflow, simulation) into the '
                        'next -- %s' % (pn, f.qual, short(ast.unparse(uses[0]), 60), consequence))
            else:
                res.ok(rule, f, f.node, '%s(%s=%s): the default is never changed or handed on' % (f.qual, pn, short(ast.unparse(d), 20)))
    if not n_seen:
        res.ok(rule, repo.func('Simulation.__init__'), None, 'no class-level mutable is aliased and no parameter has a mutable default')


def check_d1(res, f, names):
    reported = set()

    def flag(node, what, why):
        if id(node) in reported:
            return
        reported.add(id(node))
        res.bad('C10.D1', f, node, what, why)
    for n in walk_no_nested(f.node):
        if isinstance(n, ast.For) and is_set_expr(n.iter, names):
            src = ast.unparse(n.iter)
            if body_is_commutative(n.body) and body_is_commutative(n.orelse):
                res.ok('C10.D1', f, n, 'for over set %s: body is order-insensitive' % src)
            else:
                flag(n, 'for %s in %s' % (ast.unparse(n.target), src),
                     'iterates the hash-ordered set %s with an order-sensitive body: the result '
                     'depends on PYTHONHASHSEED' % src)
        elif isinstance(n, ast.Call) and call_name(n) == 'sorted' and n.args and is_set_expr(n.args[0], names):
            key = next((k.value for k in n.keywords if k.arg == 'key'), None)
            src = ast.unparse(n)
            if key_is_total(key):
                res.ok('C10.D1', f, n, '%s: total key' % short(src, 80))
            else:
                flag(n, short(src, 100),
                     'sorts a set with a key that does not contain the unique id: ties keep hash '
                     'order (stable sort), so the order depends on PYTHONHASHSEED')
        elif isinstance(n, ast.Call) and isinstance(n.func, ast.Name) and n.func.id in (
                'list', 'tuple', 'iter', 'enumerate', 'next', 'zip', 'reversed') and n.args and \
                is_set_expr(n.args[0], names):
            flag(n, short(ast.unparse(n), 100), 'materialises a set in hash order')
        elif isinstance(n, ast.Call) and isinstance(n.func, ast.Attribute) and n.func.attr in ('extend', 'join') \
                and len(n.args) == 1 and is_set_expr(n.args[0], names) and not is_set_expr(n.func.value, names):
            flag(n, short(ast.unparse(n), 100),
                 'appends the elements of a set to a sequence in hash order: the order of the sequence (and whatever '
                 'is later taken from it first) depends on PYTHONHASHSEED')
        elif isinstance(n, ast.AugAssign) and isinstance(n.op, ast.Add) and is_set_expr(n.value, names) \
                and not is_set_expr(n.target, names):
            flag(n, short(ast.unparse(n), 100), 'extends a sequence with a set in hash order')
        elif isinstance(n, ast.Call) and isinstance(n.func, ast.Attribute) and n.func.attr == 'pop' \
                and not n.args and is_set_expr(n.func.value, names):
            flag(n, short(ast.unparse(n), 100), 'set.pop() returns a hash-order dependent element')
        elif isinstance(n, (ast.ListComp, ast.GeneratorExp, ast.DictComp)):
            for g in n.generators:
                if is_set_expr(g.iter, names):
                    par = _consumer(f, n)
                    if par in ORDER_FREE_CONSUMERS and par not in ('min', 'max'):
                        res.ok('C10.D1', f, n, 'comprehension over set consumed by %s()' % par)
                    else:
                        flag(n, short(ast.unparse(n), 100), 'builds a sequence in the hash order of a set')


def _consumer(f, node):
    for n in walk_no_nested(f.node):
        if isinstance(n, ast.Call) and isinstance(n.func, ast.Name) and any(a is node for a in n.args):
            return n.func.id
    return None


RANDOM_DRAWS = {'random', 'randint', 'choice', 'choices', 'shuffle', 'sample', 'uniform', 'normal',
                'poisson', 'rand', 'randn', 'permutation', 'gauss', 'randrange', 'binomial',
                'exponential', 'standard_normal', 'integers'}


GENERATORS = ('default_rng', 'RandomState', 'Generator', 'Random', 'SeedSequence')


def check_d2(res, f):
    mod_imports = f.module.imports
    # a generator kept in object state: its position in the stream survives the call -- across the tasks
    # that share the object (copy.copy shares it too) and across two runs in one interpreter
    for n in walk_no_nested(f.node):
        if isinstance(n, (ast.Assign, ast.AnnAssign)) and isinstance(n.value, ast.Call) and call_name(n.value) in GENERATORS:
            tg = n.targets if isinstance(n, ast.Assign) else [n.target]
            for t in tg:
                if isinstance(t, (ast.Attribute, ast.Subscript)):
                    res.bad('C10.D2', f, n, 'a generator is created for the draw at hand, not kept in %s' % short(ast.unparse(t), 40),
                            'the random generator is stored in %s: every draw advances one shared stream, so the values a run sees '
                            'depend on how many draws were made before it (a second run with the same configuration and seed in the '
                            'same interpreter, or a copied model, gives different tables)' % short(ast.unparse(t), 40))
    for n in walk_no_nested(f.node):
        if not isinstance(n, ast.Call):
            continue
        nm = call_name(n)
        if nm in ('default_rng', 'RandomState', 'Generator', 'Random', 'SeedSequence'):
            seeded = bool(n.args or any(k.arg in ('seed',) for k in n.keywords))
            if seeded and n.args and isinstance(n.args[0], ast.Constant) and n.args[0].value is None:
                seeded = False
            draw = next((p.func.attr for p in walk_no_nested(f.node)
                         if isinstance(p, ast.Call) and isinstance(p.func, ast.Attribute)
                         and p.func.value is n), None)
            label = short(ast.unparse(n), 60) + ('.%s' % draw if draw else '')
            if seeded:
                res.ok('C10.D2', f, n, '%s is seeded' % label)
            else:
                res.bad('C10.D2', f, n, label,
                        'random generator created without a seed: draws differ from run to run')
        elif nm in RANDOM_DRAWS and isinstance(n.func, ast.Attribute):
            base = n.func.value
            txt = ast.unparse(base)
            root = txt.split('.')[0]
            org = mod_imports.get(root, '')
            if txt in ('random', 'np.random', 'numpy.random') or org in ('random', 'numpy.random') \
                    or (org == 'numpy' and txt.endswith('.random')):
                res.bad('C10.D2', f, n, short(ast.unparse(n), 80),
                        'draw from the global random state (unseeded)')


ENTROPY_NAMES = {'uuid1', 'uuid4', 'urandom', 'token_hex', 'token_bytes', 'getpid', 'getrandbits', 'SystemRandom'}

CLOCK_CALLS = {('time', 'time'), ('time', 'perf_counter'), ('time', 'monotonic'),
               ('datetime', 'now'), ('datetime', 'today'), ('datetime', 'utcnow'),
               ('time', 'time_ns'), ('time', 'process_time')}


def check_d3(res, canon, f):
    fr = Frame(f)
    for n in walk_no_nested(f.node):
        if not isinstance(n, ast.Call):
            continue
        hit = None
        if isinstance(n.func, ast.Attribute):
            base = ast.unparse(n.func.value).split('.')[-1]
            if (base, n.func.attr) in CLOCK_CALLS or n.func.attr in ENTROPY_NAMES:
                hit = ast.unparse(n.func)
        elif isinstance(n.func, ast.Name):
            org = f.module.imports.get(n.func.id, '')
            if n.func.id in ('id',) and not n.args == []:
                # builtin id(): only if the name is not rebound locally
                if 'id' not in assigned_names(f) and 'id' not in f.params:
                    hit = 'id'
            elif org in ('time.time', 'time.perf_counter', 'time.monotonic') or n.func.id in ENTROPY_NAMES:
                hit = org or n.func.id
            elif n.func.id == 'hash' and f.name != '__hash__':
                hit = 'hash'
        if not hit:
            continue
        # the enclosing statement decides the sink
        stmt = _enclosing_stmt(f, n)
        sink = None
        if isinstance(stmt, ast.Assign) and len(stmt.targets) == 1:
            t = stmt.targets[0]
            loc = canon.c(t.value if isinstance(t, ast.Subscript) else t, fr)
            sink = loc
        elif isinstance(stmt, ast.AugAssign):
            t = stmt.target
            sink = canon.c(t.value if isinstance(t, ast.Subscript) else t, fr)
        what = '%s() in `%s`' % (hit, short(ast.unparse(stmt), 70) if stmt is not None else '?')
        if isinstance(stmt, ast.Assign) and len(stmt.targets) == 1 and isinstance(stmt.targets[0], ast.Name):
            # held in a local: every use of the local decides
            bad_use = _local_clock_uses(f, canon, fr, stmt.targets[0].id, set())
            if bad_use is None:
                res.ok('C10.D3', f, n, what, 'held in local %s, which flows only into the timing sinks' % stmt.targets[0].id)
                continue
            sink = '%s (then `%s`)' % (stmt.targets[0].id, short(ast.unparse(bad_use), 60))
        if sink in CLOCK_SINKS:
            res.ok('C10.D3', f, n, what, 'flows into %s: %s' % (sink, CLOCK_SINKS[sink]))
        else:
            res.bad('C10.D3', f, n, what,
                    '%s() flows into %s, which is not one of the excluded timing sinks: an output '
                    'may differ between runs' % (hit, sink or 'an expression'))


def _local_clock_uses(f, canon, fr, name, seen):
    """first statement through which a wall-clock value held in local `name` reaches something
    other than an excluded timing sink (None: it does not)"""
    if name in seen:
        return None
    seen.add(name)
    used = False
    for s in walk_no_nested(f.node):
        if not isinstance(s, ast.stmt) or isinstance(s, (ast.If, ast.For, ast.While, ast.With, ast.Try, ast.FunctionDef)):
            if isinstance(s, (ast.If, ast.While)) and any(
                    isinstance(x, ast.Name) and x.id == name for x in ast.walk(s.test)):
                return s          # decides control flow
            continue
        if not any(isinstance(x, ast.Name) and x.id == name and isinstance(x.ctx, ast.Load) for x in ast.walk(s)):
            continue
        used = True
        if isinstance(s, (ast.Assign, ast.AugAssign)):
            t = s.targets[0] if isinstance(s, ast.Assign) and len(s.targets) == 1 else getattr(s, 'target', None)
            if t is None:
                return s
            if isinstance(t, ast.Name):
                r = _local_clock_uses(f, canon, fr, t.id, seen)
                if r is not None:
                    return r
                continue
            loc = canon.c(t.value if isinstance(t, ast.Subscript) else t, fr)
            if loc in CLOCK_SINKS:
                continue
            return s
        if isinstance(s, ast.Expr) and isinstance(s.value, ast.Call) and isinstance(s.value.func, ast.Attribute) \
                and isinstance(s.value.func.value, ast.Name) and s.value.func.value.id.lower() in ('logger', 'logging', 'log'):
            continue
        # store.put(key=<...name...>, value=<no name>): the value names the record in the output file
        # (file / key naming is excluded by the property), it is not part of any table
        if isinstance(s, ast.Expr) and isinstance(s.value, ast.Call) and isinstance(s.value.func, ast.Attribute) \
                and s.value.func.attr in ('put', 'append', 'to_hdf'):
            c_ = s.value
            keyargs = [k.value for k in c_.keywords if k.arg == 'key'] or (list(c_.args[:1]) if c_.args else [])
            others = [k.value for k in c_.keywords if k.arg != 'key'] + list(c_.args[1:] if c_.args and not [
                k for k in c_.keywords if k.arg == 'key'] else c_.args)
            uses = lambda e_: any(isinstance(x, ast.Name) and x.id == name for x in ast.walk(e_))
            if any(uses(e_) for e_ in keyargs) and not any(uses(e_) for e_ in others):
                continue
        return s
    return None


def _enclosing_stmt(f, node):
    best = None
    for s in walk_no_nested(f.node):
        if isinstance(s, ast.stmt) and not isinstance(s, (ast.If, ast.For, ast.While, ast.With, ast.Try,
                                                         ast.FunctionDef)):
            if any(x is node for x in ast.walk(s)):
                best = s
    return best
