"""C13 -- the event log is complete, correctly timed and causally ordered.

E1 event table: each life-cycle triple has exactly one emit site, paired with its
   transition on every path; 'added' is emitted in the start step (spawn chain)
E2 every _add_event stamps env.now
E3 the monitor collates the instrument, scheduler and buffer lists
E4 no loss: no emit into a list is followed, before the monitor's next read, by a
   clear of that list (SimPy order model E7)
E5 no duplication: a collation that can run twice over one step consumes what it read
"""
import ast

from ..index import AnalysisError, is_spawn, walk_no_nested
from ..norm import Canon, Lit, Logic, ProvCanon, effects_of_event, lit_le
from ..paths import Frame, cached_paths, contains_yield, first_segment
from ..simpy_model import Roots, registration_order, witness
from ..skel import outcomes
from . import events as E
from .common import call_name, enclosing_loops, path_must, short, stmt_contains

FLOORS = {'C13.E1': 8, 'C13.E2': 3, 'C13.E3': 3, 'C13.E4': 8, 'C13.E5': 3}

QUEUE = 'Scheduler.observation_queue'

# (owner, resource, event) -> transition it must accompany
TABLE = {
    ('Instrument', 'telescope', 'started'): ('call', 'begin_observation'),
    ('Instrument', 'telescope', 'finished'): ('call', 'finish_observation'),
    ('Buffer', 'buffer', 'added'): ('entry', None),
    ('Buffer', 'buffer', 'removed'): ('call', 'remove'),
    ('Scheduler', 'queue', 'added'): ('effect', ('append', QUEUE)),
    ('Scheduler', 'queue', 'removed'): ('effect', ('remove', QUEUE)),
    ('Scheduler', 'allocation', 'started'): ('entry', None),
    ('Scheduler', 'allocation', 'stopped'): ('call', 'mark_observation_finished'),
}
LISTS = ['Instrument.events', 'Scheduler.events', 'Buffer.events']


def obs_loop_clause(repo, res, rule, consequence):
    """every observation is examined in every step: the per-observation loop of Telescope.run has
    no early exit (shared with C08: an observation behind the exit is not started / finished on time)"""
    from .common import iteration_segments
    tel = repo.func('Telescope.run')
    obs_loops = [n for n in walk_no_nested(tel.node) if isinstance(n, ast.For)]
    for lp in obs_loops:
        early = [how for seg, how in iteration_segments(tel, lp) if how not in ('back', 'raise')]
        (res.ok if not early else res.bad)(
            rule, tel, lp, 'the per-observation loop of Telescope.run examines every observation each step',
            'ok' if not early else 'the per-observation loop can be left early (%s): an observation listed later is not '
            'examined in that step, so %s' % (early[0], consequence))
    return len(obs_loops)


def check(repo, res, tier):
    canon = Canon(repo)
    logic = Logic(canon)
    res.rule('C13.E1', 'one emit site per life-cycle event, on exactly the paths of its transition')
    res.rule('C13.E2', 'the time field of every event is env.now')
    res.rule('C13.E3', 'collate_events reads the instrument, scheduler and buffer event lists')
    res.rule('C13.E4', 'order model: no clear of an event list can run between an emit into it and the '
                       'monitor\'s next read')
    res.rule('C13.E5', 'collate_events empties each list it has read (it can run twice for one step on a pause)')
    from . import c08
    from .common import borrow
    res.rule('C13.E6', 'adopted C08.A8/A9: "finished" fires exactly duration after "started" only while the telescope\'s '
                       'in-use flag and array count are kept as begin/finish_observation leave them')
    borrow(repo, res, tier, c08, {'C08.A1', 'C08.A8', 'C08.A9', 'C08.A12'}, 'C13.E6')
    from . import c07
    res.rule('C13.E7', 'adopted C07.B3: HotBuffer.remove succeeds for any resident (scheduled) observation -- a refused removal '
                       'makes the scheduler retry and log "allocation stopped"/"buffer removed" again every step')
    borrow(repo, res, tier, c07, {'C07.B3'}, 'C13.E7')
    w = witness()
    res.extra['simpy_witness'] = w
    res.assumptions += ['SimPy order model (sa/simpy_model.py): %s' % ('verified against %s' % w['simpy']
                        if 'URGENT<NORMAL' in w else w['simpy']),
                        'numeric order of timestamps is not decided; it follows from E1+E2 and the spawn chain']
    sites = E.emit_sites(repo)
    # ---- E1 ---------------------------------------------------------------
    for key, (kind, spec) in TABLE.items():
        mine = [s for s in sites if (s[0], s[1], s[2]) == key]
        label = '%s/%s/%s' % key
        if len(mine) != 1:
            f0 = mine[1][3] if len(mine) > 1 else repo.func({'Instrument': 'Telescope.run',
                                                            'Buffer': 'Buffer.run',
                                                            'Scheduler': 'Scheduler.run'}[key[0]])
            res.bad('C13.E1', f0, mine[1][4] if len(mine) > 1 else f0.node,
                    '%d emit site(s) for %s' % (len(mine), label),
                    'the event "%s" is emitted at %d places; the log would miss or duplicate it' % (
                        label, len(mine)))
            continue
        _, _, _, f, call = mine[0]
        paths = cached_paths(f)
        res.analysed(f, len(paths))
        fr = Frame(f)
        if kind == 'entry':
            loops = enclosing_loops(f, call)
            first_loop = next((n for n in walk_no_nested(f.node) if isinstance(n, (ast.While, ast.For))), None)
            ok = not loops
            why = 'emit sits inside a loop: one entry per iteration instead of one per observation'
            if ok:
                for p in paths:
                    cnt = 0
                    reached = False
                    for e in p.events:
                        if stmt_contains(e, lambda x: x is call):
                            cnt += 1
                        if e.kind in ('loop', 'for', 'for0') and first_loop is not None and e.node is first_loop:
                            reached = True
                            break
                    if reached and cnt != 1:
                        ok, why = False, 'a path enters the main loop having emitted %d times' % cnt
                if contains_yield(ast.Module(body=_stmts_before(f, call), type_ignores=[])):
                    ok, why = False, 'a yield precedes the emit: the event is stamped with a later time'
            (res.ok if ok else res.bad)('C13.E1', f, call, '%s emitted once on entry of %s' % (label, f.qual),
                                        'ok' if ok else why)
            continue
        bad = None
        n_tr = 0
        for p in paths:
            c_emit = c_tr = 0
            for e in p.events:
                if e.kind not in ('stmt', 'test'):
                    continue
                if stmt_contains(e, lambda x: x is call):
                    c_emit += 1
                if kind == 'call':
                    for x in _nodes(e):
                        if isinstance(x, ast.Call) and call_name(x) == spec and x is not call:
                            c_tr += 1
                else:
                    for ef in effects_of_event(canon, e):
                        if ef.kind == spec[0] and ef.loc == spec[1]:
                            c_tr += 1
            n_tr += c_tr
            if c_emit != c_tr:
                bad = (p, c_emit, c_tr)
                break
        what = '%s emitted exactly where %s happens' % (label, spec if kind == 'call' else '%s on %s' % spec)
        if bad:
            res.bad('C13.E1', f, call, what,
                    'on some path of %s the transition happens %d time(s) but the event is emitted %d '
                    'time(s): the log gains or loses a "%s" entry' % (f.qual, bad[2], bad[1], label),
                    path=bad[0].describe())
        elif n_tr == 0:
            res.bad('C13.E1', f, call, what, 'the transition (%s) is not in %s any more' % (spec, f.qual))
        else:
            res.ok('C13.E1', f, call, what)
    # every observation is examined every step: the per-observation loop has no early exit
    obs_loop_clause(repo, res, 'C13.E1', 'its "finished" entry is stamped later than start + duration')
    # "allocation stopped" is emitted once: the buffer refuses to finish an observation only if it is not resident
    mk = repo.func('Buffer.mark_observation_finished')
    mfr = Frame(mk)
    rets = [n for n in walk_no_nested(mk.node) if isinstance(n, ast.Return)]
    from ..norm import ProvCanon as _PC
    _pc = _PC(repo)
    okm = bool(rets) and all(_pc.p(r.value, mfr) == 'HotBuffer.remove(%s)' % mk.params[1] for r in rets)
    (res.ok if okm else res.bad)(
        'C13.E1', mk, rets[0] if rets else None, 'mark_observation_finished refuses only what HotBuffer.remove refuses',
        'ok' if okm else 'mark_observation_finished has a refusal of its own; the scheduler emits "allocation stopped" before '
        'asking and retries every step, so the log gets several "allocation stopped" entries and late "removed" entries')
    # spawn chain: started -> allocate_ingest -> ingest_data_stream first segment emits 'added'
    chain_ok, why = spawn_chain(repo, canon)
    f_ing = repo.func('Buffer.ingest_data_stream')
    (res.ok if chain_ok else res.bad)('C13.E1', f_ing, f_ing.node,
                                      '"buffer added" is emitted in the step of "telescope started" (spawn chain)',
                                      'ok' if chain_ok else why)
    # 'finished' one duration after 'started'
    isf = repo.func('Observation.is_finished')
    outs = outcomes(logic, isf)
    okf = True
    from ..norm import Affine
    want = lit_le(Affine({'Observation.ast': 1, 'Observation.duration': 1}), isf.params[1])
    for o in outs:
        if o.result == 'T' and want not in o.lits:
            okf = False
    (res.ok if okf and any(o.result == 'T' for o in outs) else res.bad)(
        'C13.E1', isf, isf.node, 'finished only when now >= ast + duration',
        'ok' if okf else 'Observation.is_finished can be true before ast + duration')
    # ---- E2 ---------------------------------------------------------------
    pc = ProvCanon(repo)
    for cn, f in sorted(E.add_event_defs(repo).items()):
        if cn not in ('Instrument', 'Scheduler', 'Buffer'):
            continue
        fr = Frame(f)
        tval = None
        for n in walk_no_nested(f.node):
            if isinstance(n, ast.Dict):
                for k, v in zip(n.keys, n.values):
                    if isinstance(k, ast.Constant) and k.value == 'time':
                        tval = v
        got = pc.p(tval, fr) if tval is not None else None
        ok = got in ('int(%s.env.now)' % cn, '%s.env.now' % cn, 'int(self.env.now)', 'self.env.now')
        (res.ok if ok else res.bad)('C13.E2', f, tval or f.node, '%s._add_event stamps env.now' % cn,
                                    str(got) if ok else 'the time of %s events is %s, not the current '
                                    'simulated time' % (cn, got))
        res.analysed(f, 1)
    # ---- E3 / E5 ----------------------------------------------------------
    col = repo.func('Monitor.collate_events')
    res.analysed(col, len(cached_paths(col)))
    read = E.reads_in(repo, col, set(LISTS))
    for L in LISTS:
        (res.ok if L in read else res.bad)('C13.E3', col, col.node, 'collate_events reads %s' % L,
                                           'ok' if L in read else 'the monitor no longer collects %s' % L)
    consume_once(repo, res, canon, 'C13.E5')
    # ---- E4 ---------------------------------------------------------------
    no_loss(repo, res, canon, sites)


def _nodes(e):
    roots = [it.context_expr for it in e.node.items] if (e.kind == 'stmt' and e.extra == 'with') else [e.node]
    for r in roots:
        for x in ast.walk(r):
            yield x


def _stmts_before(f, node):
    """top-level statements of f that end before the statement containing node"""
    out = []
    for s in f.node.body:
        if any(x is node for x in ast.walk(s)):
            break
        out.append(s)
    return out


def spawn_chain(repo, canon):
    tel = repo.func('Telescope.run')
    started = [n for n in walk_no_nested(tel.node) if isinstance(n, ast.Call) and call_name(n) == '_add_event'
               and len(n.args) >= 3 and isinstance(n.args[2], ast.Constant) and n.args[2].value == 'started']
    if not started:
        return False, 'no "started" emit in Telescope.run'
    # same path (no yield between) as the allocate_ingest spawn
    for p in cached_paths(tel):
        idx_s = [i for i, e in enumerate(p.events) if stmt_contains(e, lambda x: x is started[0])]
        if not idx_s:
            continue
        idx_sp = [i for i, e in enumerate(p.events) if e.kind == 'stmt' and any(
            is_spawn(x) and call_name(x.args[0]) == 'allocate_ingest' for x in ast.walk(e.node))]
        if not idx_sp:
            return False, '"started" is emitted on a path that does not spawn allocate_ingest'
        lo, hi = sorted([idx_s[0], idx_sp[0]])
        if any(e.kind == 'stmt' and contains_yield(e.node) for e in p.events[lo:hi]):
            return False, 'a yield separates "started" from the ingest spawn'
    ai = repo.func('Scheduler.allocate_ingest')
    found = False
    for p in cached_paths(ai):
        seg = first_segment(p.events)
        if any(e.kind == 'stmt' and any(is_spawn(x) and call_name(x.args[0]) == 'ingest_data_stream'
                                         for x in ast.walk(e.node)) for e in seg):
            found = True
    if not found:
        return False, 'allocate_ingest does not spawn ingest_data_stream in its first segment'
    ing = repo.func('Buffer.ingest_data_stream')
    for p in cached_paths(ing):
        if p.exit == 'raise':
            continue
        seg = first_segment(p.events)
        if not any(stmt_contains(e, lambda x: isinstance(x, ast.Call) and call_name(x) == '_add_event')
                   for e in seg):
            return False, 'ingest_data_stream does not emit "added" before its first yield'
    return True, ''


def _reaching_def(path, upto, name):
    """(event index, RHS) of the last plain assignment to local `name` before event `upto`"""
    for k in range(upto - 1, -1, -1):
        e = path.events[k]
        if e.kind == 'stmt' and isinstance(e.node, ast.Assign) and any(
                isinstance(t, ast.Name) and t.id == name for t in e.node.targets):
            return k, e.node.value
    return None, None


def consume_once(repo, res, canon, rule):
    """A collation that can run more than once over the same step must clear
    what it read."""
    col = repo.func('Monitor.collate_events')
    callers = repo.call_sites({'Monitor.collate_events'})
    outside = [g for g, call, sp, ex in callers if g.qual != 'Monitor.run']
    fr = Frame(col)
    _logic = Logic(canon)
    read = E.reads_in(repo, col, set(LISTS))
    for L in sorted(LISTS):
        clears = [n for f, n in E.clear_sites(repo, L) if f is col]
        what = 'collate_events consumes %s' % L
        if not outside:
            res.ok(rule, col, col.node, what, 'collate_events is only called from Monitor.run')
            continue
        ok = True
        witness_p = None
        from .common import reaching_value
        n_copy = 0
        for p in cached_paths(col):
            # statements that copy the content of L into the monitor's log on this path
            copies = []
            for i, e in enumerate(p.events):
                if e.kind != 'stmt' or not isinstance(e.node, ast.Assign):
                    continue
                if not any(canon.c(t, fr) == 'Monitor.events' for t in e.node.targets):
                    continue
                # where the content of L is read: in the copying statement itself, or earlier
                # through a local that holds (a reference to) the list
                read_at = None
                for x in ast.walk(e.node.value):
                    if isinstance(x, (ast.Attribute, ast.Subscript)) and canon.c(x, fr) == L:
                        read_at = i
                    elif isinstance(x, ast.Name):
                        seen_names = set()
                        work = [(x.id, i)]
                        while work and read_at is None:
                            nm, at = work.pop()
                            if nm in seen_names:
                                continue
                            seen_names.add(nm)
                            k, rv = _reaching_def(p, at, nm)
                            if rv is None:
                                continue
                            for y in ast.walk(rv):
                                if isinstance(y, (ast.Attribute, ast.Subscript)) and canon.c(y, fr) == L:
                                    read_at = k
                                elif isinstance(y, ast.Name):
                                    work.append((y.id, k))
                if read_at is not None:
                    copies.append(read_at)
            if not copies:
                # a path that does not collect L must have seen that L is empty
                must = path_must(_logic, p)
                if not ({Lit('truthy(%s)' % L, False), Lit('empty(%s)' % L, True)} & must) and p.exit != 'raise':
                    res.bad('C13.E3', col, col.node, '%s is skipped when it has entries' % L,
                            'on a path of collate_events the entries of %s are not copied into the log although the path has not '
                            'established that the list is empty: events are missing from the event log' % L,
                            path=p.describe())
                continue
            n_copy += 1
            cl = [i for i, e in enumerate(p.events) if any(e.node is n or (
                e.kind == 'stmt' and any(x is n for x in ast.walk(e.node))) for n in clears)]
            if not cl or max(cl) < max(copies):
                ok, witness_p = False, p
        if ok and not n_copy:
            ok = False
            witness_p = None
        if ok:
            res.ok(rule, col, clears[0] if clears else col.node, what)
        else:
            res.bad(rule, col, col.node, '%s read but not cleared by collate_events' % L,
                    'collate_events is also called from %s (pause), and Monitor.run collates again at '
                    'the resumed step before any actor has cleared %s: the entries of the pause step '
                    'are logged twice' % (', '.join(sorted({g.qual for g in outside})), L),
                    path=witness_p.describe() if witness_p else None)


def no_loss(repo, res, canon, sites):
    R = Roots(repo)
    order = R.order
    res.extra['registration_order'] = order
    adddefs = E.add_event_defs(repo)
    reader = repo.func('Monitor.collate_events')
    if order[0] != 'Monitor':
        res.note('E4: the monitor is not registered first (%s); judged by C12.M1' % order)
    for cn in ('Instrument', 'Scheduler', 'Buffer'):
        ad = adddefs.get(cn)
        if ad is None:
            raise AnalysisError('%s has no _add_event' % cn)
        L = E.list_location(repo, ad)
        clears = [(f, n) for f, n in E.clear_sites(repo, L) if f is not reader]
        emits = [(s[3], s[4], s[1], s[2]) for s in sites if s[0] == cn]
        for h, call, r_, e_ in emits:
            what = 'emit %s/%s in %s survives until the monitor reads %s' % (r_, e_, h.qual, L)
            eroots = R.roots(h.qual) - {'Simulation'}
            hazard = None
            for g, cn_ in clears:
                croots = R.roots(g.qual) - {'Simulation'}
                for er in eroots:
                    for cr in croots:
                        if er not in order or cr not in order:
                            continue
                        ie, ic = order.index(er), order.index(cr)
                        if ic > ie:
                            hazard = (g, cn_, er, cr, 'the clear runs in the slot of %s, after the emitter '
                                      '(slot of %s) in the same timestep' % (cr, er))
                        elif ic == ie:
                            # same slot: safe only if the clear is in the actor loop itself (it wakes
                            # first) and precedes the emit when both are in that loop
                            if g.qual not in R.actor_runs:
                                hazard = (g, cn_, er, cr, 'the clear is performed by a child process '
                                          'that wakes after the emitter')
                            elif h is g and not _precedes(g, cn_, call):
                                hazard = (g, cn_, er, cr, 'the clear follows the emit in the same loop body')
            if hazard:
                g, n, er, cr, why = hazard
                res.bad('C13.E4', h, call, 'emit %s/%s into %s cleared by %s' % (r_, e_, L, g.qual),
                        'the entry emitted here (process rooted at %s) is wiped by `%s` in %s before the '
                        'monitor collates it: %s. Registration order: %s' % (
                            er, short(ast.unparse(n), 40), g.qual, why, ' > '.join(order)), what=what)
            else:
                res.ok('C13.E4', h, call, what, 'roots %s; clears by %s' % (
                    sorted(eroots), sorted({g.qual for g, _ in clears}) or 'the reader only'))


def _precedes(f, a, b):
    """False when on some path node b (the emit) is followed by statement a (the
    clear) without a yield in between, i.e. within one segment."""
    for p in cached_paths(f):
        evs = p.events
        ib = [i for i, e in enumerate(evs) if e.node is not None and e.kind in ('stmt', 'test')
              and any(x is b for x in ast.walk(e.node))]
        for i in ib:
            for e in evs[i + 1:]:
                if e.kind == 'stmt' and contains_yield(e.node):
                    break
                if e.node is not None and e.kind == 'stmt' and any(x is a for x in ast.walk(e.node)):
                    return False
    return True
