"""C02 -- every machine is in exactly one resource pool; counts are true.

P1 ownership/alias: pool state is touched only inside Cluster; getters return copies
P2 conservation: in every atomic block each machine is moved (one remove, one
   append to another pool) or left alone
P3 refusal discipline: a refusing raise/return precedes every effect; a helper's
   refusal status is never dropped
P4 counter coupling (sa/props/counters.py)
"""
import ast

from ..index import AnalysisError, walk_no_nested
from ..norm import Canon, copy_source
from ..paths import Frame
from . import cluster_units as CU
from .common import call_name, short
from .counters import check_coupling

FLOORS = {'C02.P5': 1, 'C02.P1': 4, 'C02.P2': 5, 'C02.P3': 3, 'C02.P4': 1}

PRIVATE_STATE = {'_clusters', '_resources', '_tasks', '_usage_data', '_ingest'}


def check(repo, res, tier):
    canon = Canon(repo)
    res.rule('C02.P1', 'Cluster._clusters/_resources/_tasks/_usage_data/_ingest are accessed only inside '
                       'class Cluster and no method returns a pool container itself')
    res.rule('C02.P2', 'per atomic block and machine: no pool effect, or exactly one remove from pool A and '
                       'one append to pool B != A (bulk release: append all + drop the reservation key)')
    res.rule('C02.P3', 'a refusal (raise in a public method) happens before any pool/counter effect; a helper '
                       'signalling refusal by return value has its result tested by every caller')
    res.rule('C02.P4', 'usage counters move with their containers in every atomic block')
    res.assumptions += ['"all machines available at the end" needs termination and is not decided',
                        'list.remove/append semantics; machines are unique objects (no duplicates in a pool)']
    p1(repo, res, canon)
    us = CU.dedupe(CU.units(repo))
    res.extra['atomic_blocks'] = len(us)
    for f in {u.func for u in us}:
        res.analysed(f, sum(1 for u in us if u.func is f))
    p2(repo, res, canon, us)
    p3(repo, res, canon, us)
    check_coupling(repo, res, 'C02.P4', canon)
    prov_counter(repo, res, canon, us)
    p5(repo, res)
    from . import initial
    res.rule('C02.P10', 'initial state: every usage counter starts as the size of the container it mirrors, as '
                        'initialised in the same constructor (P4 only follows the changes)')
    initial.check_cluster_counters(repo, res, 'C02.P10')
    from . import c09
    from .common import borrow
    res.rule('C02.P6', 'adopted C09.R4: a machine finishing work for a reserved observation returns to that reservation '
                       '(else the reservation outlives the run: "no reservation outstanding at the end")')
    borrow(repo, res, tier, c09, {'C09.R4'}, 'C02.P6')
    from . import c04
    res.rule('C02.P11', 'adopted C04.T7: at workflow end the scheduler releases the reservation under the key it was made with '
                        '(the observation name) -- else "no reservation outstanding at the end" fails for every algorithm that '
                        'leaves the release to the scheduler')
    borrow(repo, res, tier, c04, {'C04.T7'}, 'C02.P11')
    res.rule('C02.P8', 'adopted C04.T2: a task is FINISHED only after the cluster has taken its machine back -- a task reported '
                       'finished one event early lets a fully busy reservation be "released" while empty, and it is then never dropped')
    borrow(repo, res, tier, c04, {'C04.T2'}, 'C02.P8')
    from .c10 import check_shared_state
    check_shared_state(repo, res, 'C02.P7', 'pools or counters are shared between Cluster objects: the reported numbers are not '
                       'those of this cluster')


# ------------------------------------------------------------------------ P5
def p5(repo, res):
    """Bulk operations (a loop of moves inside one call) cannot be refused half-way only if every
    machine they move is known to be where the move takes it from.  The loop path model (a loop is
    followed at most once) cannot see a refusal in iteration k after the effects of iteration 1..k-1,
    so this is decided from the provenance of the machines: the machines a reservation is made of
    are elements of the available pool."""
    from ..norm import ProvCanon
    res.rule('C02.P5', 'provision_batch_resources reserves only machines taken from the available pool '
                       '(so _add_idle_resource cannot refuse after earlier machines have moved)')
    pc = ProvCanon(repo)
    avail = [k for k, v in CU.POOLS.items() if v == 'available'][0]
    n = 0
    for f in repo.cls('Cluster').methods.values():
        fr = Frame(f)
        for c in walk_no_nested(f.node):
            if isinstance(c, ast.Call) and isinstance(c.func, ast.Attribute) and c.func.attr == '_add_idle_resource' \
                    and len(c.args) >= 2:
                n += 1
                P = pc.p(c.args[1], fr)
                ok = P.startswith(avail + '[') or P in ('elem(%s)' % avail,) or P.startswith('elem(%s[' % avail)
                what = '%s reserves %s' % (f.qual, short(P, 80))
                if ok:
                    res.ok('C02.P5', f, c, what, 'an element of the available pool')
                else:
                    res.bad('C02.P5', f, c, what,
                            'the machines set aside for a reservation are %s, not elements of the available pool: a '
                            'machine that is reserved for another observation (or busy) makes _add_idle_resource raise '
                            'after earlier machines have already moved -- the refused call leaves the pools changed' % short(P, 120))
    # (no call site at all: the floor of C02.P5 stops the run with exit 2 -- unless another rule has
    # already reported what happened to the reservation code)


# ------------------------------------------------------------------------ P1
def is_container_loc(loc):
    return loc is not None and (loc in CU.POOLS or loc.startswith(CU.IDLE_PREFIX) or
                                loc in (CU.RUNNING, CU.FINISHED) or loc in (
                                    'Cluster._resources', 'Cluster._tasks', 'Cluster._usage_data',
                                    'Cluster._clusters', 'Cluster._ingest'))


def p1(repo, res, canon):
    cl = repo.cls('Cluster')
    # (a) outside access
    n_out = 0
    for f in repo.all_functions():
        if f.cls is cl:
            continue
        for n in walk_no_nested(f.node):
            if isinstance(n, ast.Attribute) and n.attr in PRIVATE_STATE:
                ts = repo.expr_types(n.value, f)
                if 'Cluster' in ts or (not ts and not (isinstance(n.value, ast.Name) and n.value.id == 'self')):
                    n_out += 1
                    res.bad('C02.P1', f, n, '%s touches Cluster.%s' % (f.qual, n.attr),
                            '%s reaches into the cluster\'s private pool state (%s): machines can be '
                            'moved or lost outside the paired moves' % (f.qual, short(ast.unparse(n))))
    if not n_out:
        res.ok('C02.P1', cl.methods['__init__'], cl.node, 'no access to Cluster private state from other topsim modules')
    # (b) getters return copies
    def _internal_only(name):
        # a private accessor used only as self.<name>(...) inside the Cluster: whoever gets the
        # container is the Cluster itself (the public getters that use it are judged with it inlined)
        if not name.startswith('_') or name.startswith('__'):
            return False
        for g in repo.all_functions(include_inlined=True):
            for n in walk_no_nested(g.node):
                if isinstance(n, ast.Attribute) and n.attr == name:
                    if not (g.cls is cl and isinstance(n.value, ast.Name) and n.value.id == 'self'):
                        return False
        return True
    for name, f in sorted(cl.methods.items()):
        fr = Frame(f)
        if _internal_only(name):
            continue
        for r in walk_no_nested(f.node):
            if not isinstance(r, ast.Return) or r.value is None:
                continue
            vals = r.value.elts if isinstance(r.value, ast.Tuple) else [r.value]
            for v in vals:
                if isinstance(v, (ast.Constant, ast.Compare, ast.BoolOp)):
                    continue
                loc = canon.c(v, fr)
                if not is_container_loc(loc):
                    continue
                direct = copy_source(v) is None
                if isinstance(v, ast.Name):
                    # a local: alias only if it was not assigned from a copy
                    al = fr.aliases.get(v.id)
                    direct = al is not None and copy_source(al) is None
                if direct:
                    res.bad('C02.P1', f, r, '%s returns %s itself' % (f.qual, loc),
                            '%s hands out the pool container %s instead of a copy: a caller\'s '
                            'private `.remove(m)` would delete a machine from the real pool' % (f.qual, loc))
                else:
                    res.ok('C02.P1', f, r, '%s returns a copy of %s' % (f.qual, loc))


# ------------------------------------------------------------------------ P2
def p2(repo, res, canon, us):
    from ..norm import ProvCanon
    pcanon = ProvCanon(repo)
    reported = set()
    n_moves = 0
    move_sites = set()
    from ..norm import Logic as _Logic, Lit
    _lg = _Logic(canon)
    for u in us:
        if CU.raises(u):
            continue
        per = {}
        bulk_pop = []
        for ef in u.all_effects():
            pool = CU.pool_of(ef.loc)
            if pool == 'available' and ef.kind == 'extend' and ef.value is not None:
                # available.extend(<copy of idle[obs]>) is the bulk form of the release loop
                src = pcanon.p(ef.value, ef.ev.frame)
                if src.startswith(CU.IDLE_PREFIX + '['):
                    if u.facts_out.get(('<empty>', src)) is True:
                        continue          # extending by an empty reservation list: no effect
                    per.setdefault('<all of %s>' % src, []).append(('append', 'available', ef))
                    continue
            if pool and ef.kind in ('append', 'remove', 'insert', 'extend', 'pop', 'clear'):
                key = ef.arg if ef.kind in ('append', 'remove') else '<%s>' % ef.kind
                per.setdefault(key, []).append((ef.kind, pool, ef))
            elif ef.loc == CU.IDLE_PREFIX and ef.kind == 'pop':
                bulk_pop.append(ef)
            elif ef.loc is not None and ef.loc.startswith(CU.IDLE_PREFIX + '[') and ef.kind == 'assign' \
                    and CU.pool_of(ef.loc) == 'idle' and ef.arg not in ('[]',):
                per.setdefault('<assign>', []).append(('assign', 'idle', ef))
        # a reservation list may be created only for an observation that has none yet
        for e, efs in u.effects:
            for ef in efs:
                if ef.kind == 'assign' and CU.pool_of(ef.loc) == 'idle' and ef.loc.startswith(CU.IDLE_PREFIX + '['):
                    key_ = ef.loc[len(CU.IDLE_PREFIX) + 1:-1]
                    idx = u.path.events.index(e) if e in u.path.events else None
                    facts_ok = False
                    if idx is not None:
                        from ..norm import Logic, Lit
                        lg = Logic(canon)
                        must = set()
                        for x in u.path.events[:idx]:
                            if x.kind == 'test':
                                must |= lg.must(x.node, x.frame, x.pol)
                        names = {key_, key_.split('#')[-1]}
                        facts_ok = any((not l.pol) and l.atom.endswith(' in ' + CU.IDLE_PREFIX) and
                                       l.atom.split(' in ')[0].split('#')[-1] in {n_.split('#')[-1] for n_ in names}
                                       for l in must)
                    k2 = (u.func.qual, ef.node.lineno, facts_ok)
                    if k2 in reported:
                        continue
                    reported.add(k2)
                    if facts_ok:
                        res.ok('C02.P2', u.func, ef.node, 'idle[obs] is created only when obs has no reservation yet (line %d)' % ef.node.lineno)
                    else:
                        res.bad('C02.P2', u.func, ef.node, 'idle[obs] overwritten by `%s`' % short(ast.unparse(ef.node), 50),
                                'the reservation list of an observation is replaced without having tested that it has '
                                'none: machines sitting reserved-idle in the old list are in no pool any more',
                                path=u.path.describe())
        for m, lst in per.items():
            kinds = [(k, p) for k, p, _ in lst]
            node = lst[0][2].node
            # the effects on one machine, in order, must be a chain of moves
            ok = True
            pending = None
            chain = []
            for k, p_ in kinds:
                if k not in ('append', 'remove'):
                    ok = False
                    break
                if pending is None:
                    pending = (k, p_)
                elif pending[0] != k and pending[1] != p_:
                    src, dst = (pending[1], p_) if pending[0] == 'remove' else (p_, pending[1])
                    chain.append((src, dst))
                    pending = None
                else:
                    ok = False
                    break
            # a move spelled append-then-remove: the remove is the step that can refuse (ValueError
            # when the machine is not in the source pool), and by then the append has happened --
            # unless the machine is known to be in the source (taken from it, or tested)
            if ok:
                for j in range(0, len(lst) - 1, 2):
                    (k1, p1, e1), (k2, p2, e2) = lst[j], lst[j + 1]
                    if k1 == 'append' and k2 == 'remove':
                        arg = e2.node.args[0] if isinstance(e2.node, ast.Call) and e2.node.args else None
                        P = pcanon.p(arg, e2.ev.frame) if arg is not None else ''
                        # taken from that pool: its provenance mentions an element of the pool and no other pool
                        others = [q_ for q_ in list(CU.POOLS) + [CU.IDLE_PREFIX] if q_ != e2.loc and q_ in P]
                        by_prov = (('elem(%s' % e2.loc) in P or (e2.loc + '[') in P) and not others
                        by_fact = u.facts_in.get((e2.arg, e2.loc)) is True or any(
                            x.kind == 'test' and Lit('%s in %s' % (e2.arg, e2.loc), True) in _lg.must(x.node, x.frame, x.pol)
                            for x in u.events[:u.events.index(e2.ev)] if x.kind == 'test') if e2.ev in u.events else False
                        key = (u.func.qual, 'append-before-remove', e2.node.lineno)
                        if not (by_prov or by_fact) and key not in reported:
                            reported.add(key)
                            res.bad('C02.P2', u.func, e2.node, 'machine %s appended to %s before it is removed from %s' % (
                                short(m, 40), p1, p2),
                                'the machine is put into the %s pool before `%s` has taken it out of the %s pool, and nothing '
                                'on this path establishes that it is there: when it is not (a machine on ingest proposed for '
                                'a workflow task), remove() raises after the append -- the call is refused but the machine '
                                'stays in two pools' % (p1, short(ast.unparse(e2.node), 50), p2), path=u.path.describe())
            if ok and pending is not None:
                if pending == ('append', 'available') and bulk_pop and not chain:
                    chain.append(('idle(all)', 'available'))
                else:
                    ok = False
            if ok:
                for src, dst in chain:
                    n_moves += 1
                    move_sites.add((u.func.qual, m, src, dst, node.lineno))
            if not ok:
                key = (u.func.qual, tuple(kinds), tuple(sorted(u.world.items())))
                if key in reported:
                    continue
                reported.add(key)
                desc = ', '.join('%s %s' % (k, p) for k, p in kinds)
                res.bad('C02.P2', u.func, node, 'machine %s: %s in %s' % (short(m, 40), desc, u.label),
                        'in one atomic block the machine `%s` undergoes [%s]: it is lost from, or '
                        'duplicated in, the resource pools (a move is one remove plus one append to a '
                        'different pool)' % (short(m, 60), desc), path=u.path.describe())
        if bulk_pop and not any(k == 'append' and p == 'available' for lst in per.values() for k, p, _ in lst):
            key = (u.func.qual, 'pop-without-return')
            if key not in reported:
                reported.add(key)
                res.bad('C02.P2', u.func, bulk_pop[0].node, 'reservation dropped without returning machines in %s' % u.label,
                        'a reservation key is dropped from the idle table while its machines are not '
                        'appended to the available pool: the reserved machines are lost', path=u.path.describe())
    for q, m, a, b, line in sorted(move_sites):
        res.ok('C02.P2', q, None, 'move %s -> %s of %s (line %d)' % (a, b, short(m, 40), line))
    if not move_sites:
        res.bad('C02.P2', repo.func('Cluster.allocate_task_to_cluster'), None, 'no pool moves found',
                'the cluster no longer moves machines between pools')


# ------------------------------------------------------------------------ P3
def p3(repo, res, canon, us):
    cl = repo.cls('Cluster')
    # (i) raises in public methods precede effects (within the atomic block)
    seen = set()
    for u in us:
        top_raise = [e for e in u.events if e.kind == 'exit' and e.extra == 'raise' and e.frame.depth == 0]
        if not top_raise:
            continue
        node = top_raise[0].node
        before = []
        for e, efs in u.effects:
            if e is top_raise[0]:
                break
            for ef in efs:
                if CU.pool_of(ef.loc) or ef.loc in (CU.RUNNING,) or ef.loc.startswith((
                        CU.USAGE_PREFIX, CU.FINISHED)) or ef.loc == CU.PROV:
                    before.append(ef)
        key = (u.func.qual, getattr(node, 'lineno', 0), bool(before))
        if key in seen:
            continue
        seen.add(key)
        what = 'raise at line %s of %s precedes every effect' % (getattr(node, 'lineno', '?'), u.func.qual)
        if before:
            res.bad('C02.P3', u.func, node, 'raise after `%s`' % short(ast.unparse(before[0].node), 50),
                    'this refusal is raised after the block has already changed pool/counter state '
                    '(%s): a refused call does not leave the pools unchanged' % short(ast.unparse(before[0].node)),
                    path=u.path.describe(), what=what)
        else:
            res.ok('C02.P3', u.func, node, what)
    # (ii) dropped status of refusal-by-value helpers
    for name, h in sorted(cl.methods.items()):
        rets = [r for r in walk_no_nested(h.node) if isinstance(r, ast.Return) and isinstance(
            r.value, ast.Constant) and isinstance(r.value.value, bool)]
        vals = {r.value.value for r in rets}
        if vals != {True, False}:
            continue
        # does a True path have effects?  (cheap syntactic test: any mutator call in the body)
        has_eff = any(isinstance(n, ast.Call) and isinstance(n.func, ast.Attribute) and
                      n.func.attr in ('append', 'remove', 'pop') for n in walk_no_nested(h.node))
        if not has_eff:
            continue
        for g, call, spawned, exact in repo.call_sites({h.qual}):
            par = _parent_stmt(g, call)
            tested = isinstance(par, (ast.If, ast.While, ast.Assert)) or (
                isinstance(par, ast.Return)) or (isinstance(par, ast.Assign) and _name_tested(g, par))
            what = 'status of %s tested by %s' % (h.qual, g.qual)
            if tested:
                res.ok('C02.P3', g, call, what)
            else:
                res.bad('C02.P3', g, call, '%s ignores the status of %s' % (g.qual, h.name),
                        '%s returns False when it refuses (machine in no pool it may be taken from) '
                        'but %s drops the result and carries on: the task is started and the counters '
                        'move although no machine changed pool' % (h.qual, g.qual), what=what)


def _parent_stmt(f, node):
    best = None
    for s in walk_no_nested(f.node):
        if isinstance(s, ast.stmt):
            roots = []
            if isinstance(s, (ast.If, ast.While)):
                roots = [s.test]
            elif isinstance(s, (ast.For, ast.With, ast.Try, ast.FunctionDef)):
                continue
            else:
                roots = [s]
            for r in roots:
                if any(x is node for x in ast.walk(r)):
                    best = s
    return best


def _name_tested(f, assign):
    names = [t.id for t in assign.targets if isinstance(t, ast.Name)]
    for s in walk_no_nested(f.node):
        if isinstance(s, (ast.If, ast.While)) and any(
                isinstance(x, ast.Name) and x.id in names for x in ast.walk(s.test)):
            return True
    return False


def prov_counter(repo, res, canon, us):
    bad = None
    n = 0
    for u in us:
        if CU.raises(u):
            continue
        pops = dec = 0
        for ef in u.all_effects():
            if ef.loc == CU.IDLE_PREFIX and ef.kind == 'pop':
                pops += 1
            if ef.loc == CU.PROV and ef.kind == 'aug-':
                dec += 1
            if ef.loc == CU.PROV and ef.kind == 'assign':
                bad = (u, ef, 'reservation count overwritten')
        if pops or dec:
            n += 1
            if pops != dec:
                bad = (u, None, 'a block drops %d reservation(s) but decrements the count %d time(s)' % (pops, dec))
    f = repo.func('Cluster.release_batch_resources')
    if bad:
        res.bad('C02.P4', bad[0].func, bad[1].node if bad[1] else None, 'num_provisioned_obs: %s' % bad[2],
                'the number of live reservations no longer matches the idle table: %s' % bad[2],
                path=bad[0].path.describe())
    elif n:
        res.ok('C02.P4', f, None, 'num_provisioned_obs decremented exactly where a reservation key is dropped',
               '%d block(s)' % n)
