"""C05 -- every feasible configuration terminates: four NECESSARY clauses only.

Termination and the serial bound themselves quantify over run-time quantities
and are NOT decided.  Decided:
L1 ingest-reservation pairing (acquire only with a true verdict; consumer starts
   ingest; ingest releases the same amount on every exit)
L2 no zero-time loop: every cycle of a while-loop in a SimPy process passes a yield
L3 batch partitions are released at workflow end (algorithm OR scheduler)
L4 partial operations have their precondition (tier stored lists; private free lists)
"""
import ast

from ..index import AnalysisError, is_spawn, walk_no_nested
from ..norm import Canon, Lit, Logic, ProvCanon, effects_of_event, path_effects, effects_along
from ..paths import Ev, Frame, bind_args, cached_paths, contains_yield, is_const_true, locally_feasible
from ..skel import outcomes
from .common import (call_name, enclosing_loops, iteration_segments, path_must, reaching_value,
                     short, stmt_contains)

FLOORS = {'C05.L1': 1, 'C05.L2': 10, 'C05.L3': 2, 'C05.L4a': 4, 'C05.L4b': 4, 'C05.L6': 1}

COUNTER = 'Scheduler.provision_ingest'
STORED = {"HotBuffer.observations['stored']", "ColdBuffer.observations['stored']"}


def feasible_enum(repo, path):
    for e in path.events:
        if e.kind == 'test':
            node, pol = e.node, e.pol
            while isinstance(node, ast.UnaryOp) and isinstance(node.op, ast.Not):
                node, pol = node.operand, not pol
            t = repo.enum_truth(node)
            if t is not None and t != pol:
                return False
    return True


def check(repo, res, tier):
    canon = Canon(repo)
    logic = Logic(canon)
    res.rule('C05.L1', 'provision_ingest is increased only on paths that return true; the caller that '
                       'gets true spawns allocate_ingest; allocate_ingest subtracts the same amount on every exit')
    res.rule('C05.L2', 'every cycle of every while-loop of a generator (SimPy process) passes a yield')
    res.rule('C05.L3', 'release_batch_resources(plan id) is called at workflow end by the algorithm or the scheduler')
    res.rule('C05.L4a', 'every [-1]/[0]/pop() on a tier stored list is dominated by a non-emptiness guard '
                        '(in the function or in every caller)')
    res.rule('C05.L4b', 'every free_list.remove(x) in a scheduling algorithm has x taken from the list or tested "in" it')
    res.assumptions += ['termination and the serial time bound are NOT decided (run-time quantities)',
                        'an exception inside a SimPy process escapes env.run and ends the simulation']
    l1(repo, res, canon, logic)
    l2(repo, res)
    l3(repo, res, canon)
    l4a(repo, res, canon, logic)
    l4b(repo, res, canon, logic)
    l4c(repo, res, canon, logic)
    l6(repo, res, canon)
    l13(repo, res, canon)
    l15(repo, res, canon)
    l12(repo, res, canon)
    from . import defined
    res.rule('C05.L10', 'every attribute read through self in a reachable method has a definition somewhere (class family, '
                        'class body, store on another object): else AttributeError, the run does not complete')
    res.rule('C05.L11', 'every name read in a reachable function can have been bound when it is read (structured '
                        'may-assigned analysis): else NameError/UnboundLocalError, the run does not complete')
    reach = defined.reachable(repo)
    nr, nc = defined.check_attrs(repo, res, 'C05.L10', reach)
    no = defined.check_obj_attrs(repo, res, 'C05.L10', reach)
    res.ok('C05.L10', 'topsim', None, '%d reads of self attributes in %d reachable methods, %d reads on objects of a known '
           'package class' % (nr, nc, no), 'all defined')
    nl, nf = defined.check_names(repo, res, 'C05.L11', reach)
    npth = defined.check_path_assigned(repo, res, 'C05.L11', reach)
    res.ok('C05.L11', 'topsim', None, '%d name reads in %d reachable functions, %d loop-complete paths' % (nl, nf, npth),
           'all bound')
    res.extra['definite_definition'] = {'reachable_functions': len(reach), 'self_attribute_reads': nr, 'typed_object_reads': no, 'name_reads': nl}
    if nr < 300 or nl < 1500 or len(reach) < 100 or no < 60:
        raise AnalysisError('definite-definition rules saw too little (%d attribute reads, %d name reads, %d reachable '
                            'functions): reachability or the module filter is broken' % (nr, nl, len(reach)))
    from .c10 import check_shared_state
    check_shared_state(repo, res, 'C05.L9', 'the pool of ready tasks (or another per-workflow structure) of one workflow is seen '
                       'by the next: a foreign task is looked up in the wrong graph and the run ends with an exception')
    # L5: an observation can always reach FINISHED (else the telescope never goes idle)
    from . import c08
    from .common import borrow
    res.rule('C05.L5', 'observation life cycle can complete: adopted C08.A7/A8/A9 (is_finished needs ast+duration and the '
                       'in-use flag, which is cleared only when no arrays are held)')
    borrow(repo, res, tier, c08, {'C08.A7', 'C08.A8', 'C08.A9'}, 'C05.L5')
    from . import c04
    res.rule('C05.L7', 'adopted C04.T2: a task is FINISHED only once its process has completed and the cluster has taken its '
                       'machine back -- a task reported finished early lets the scheduler release a reservation that still '
                       'has a busy machine, after which no later workflow can be provisioned')
    borrow(repo, res, tier, c04, {'C04.T2'}, 'C05.L7')
    from . import c09, c18
    res.rule('C05.L8', 'adopted C09.R4 (a reservation gets its machines back, so it can be dropped and a later workflow provisioned) '
                       'and C18.V8 (the pending hot-to-cold volume returns to 0, so a hot buffer over its threshold unblocks)')
    borrow(repo, res, tier, c09, {'C09.R4'}, 'C05.L8')
    borrow(repo, res, tier, c18, {'C18.V8'}, 'C05.L8')
    borrow(repo, res, tier, c18, {'C18.V3'}, 'C05.L8')
    from . import c03
    res.rule('C05.L14', 'adopted C03.Q3 (a task waits for its predecessors\' data the remaining time, not until an absolute '
                        'time: the serial bound) and C08.A4 (the ingest admission counts the machines that are really free, '
                        'else provisioning raises)')
    borrow(repo, res, tier, c03, {'C03.Q3'}, 'C05.L14')
    borrow(repo, res, tier, c08, {'C08.A4'}, 'C05.L14')
    res.rule('C05.L16', 'adopted C04.T10 (a stored observation is offered to the scheduler exactly when the hot tier is not over '
                        'its threshold -- the same test Buffer.run uses to move data out: a boundary the two disagree on leaves an '
                        'observation that is neither moved nor offered, for ever) and C18.V4 (a completed move clears the '
                        'sender\'s transfer slot: a stale entry keeps counting against the tier and refuses later observations '
                        'for ever)')
    borrow(repo, res, tier, c04, {'C04.T10'}, 'C05.L16')
    borrow(repo, res, tier, c18, {'C18.V4'}, 'C05.L16')
    res.rule('C05.L17', 'adopted C18.V5, state-restoring part: a move refused for lack of room puts the observation back where '
                        'it was taken from and clears the transfer slot -- an observation popped and not re-appended is in no '
                        'buffer list, is never offered to the scheduler and its space is never freed; a slot left set counts '
                        'against the tier for ever (a move that is *no longer refused* is C18\'s matter, not termination)')
    borrow(repo, res, tier, c18, {'C18.V5'}, 'C05.L17', keep=lambda f: 'has no refusing path' not in f.construct)


# ---------------------------------------------------------------------- L1
def l1(repo, res, canon, logic):
    f = repo.func('Scheduler.check_ingest_capacity')
    outs = outcomes(logic, f, depth=0)
    res.analysed(f, len(outs))
    acq_ops = set()
    n_acq = 0
    flagged = set()
    for o in outs:
        acq = []
        for e, _efs in effects_along(canon, o.path.events):
            for ef in _efs:
                if ef.loc == COUNTER and ef.kind.startswith('aug'):
                    acq.append(ef)
                elif ef.loc == COUNTER:
                    res.bad('C05.L1', f, ef.node, short(ast.unparse(ef.node)),
                            'the pending-ingest counter is overwritten, not incremented')
        for ef in acq:
            n_acq += 1
            acq_ops.add((ef.kind, ef.value))
            if o.result != 'T' and id(ef.node) not in flagged:
                flagged.add(id(ef.node))
                res.bad('C05.L1', f, ef.node, 'reserve on a refusing path: %s' % short(ast.unparse(ef.node)),
                        'check_ingest_capacity reserves %s ingest machines on a path that returns %s '
                        '[%s]: the caller never starts the ingest that would release them, so the '
                        'reservation leaks and later observations are blocked forever' % (
                            ef.arg, 'false' if o.result == 'F' else o.result,
                            ' & '.join(map(repr, o.lits))), path=o.path.describe())
    acq_nodes = {id(v): (k, v) for k, v in acq_ops}
    if n_acq == 0:
        res.ok('C05.L1', f, f.node, 'check_ingest_capacity reserves nothing on any path (nothing can leak here)')
    elif not flagged:
        res.ok('C05.L1', f, f.node, 'every path that reserves returns true', '%d outcome paths' % len(outs))
    # ---- consumer --------------------------------------------------------
    sites = repo.call_sites({'Scheduler.check_ingest_capacity'})
    tel_frames = []
    for g, call, spawned, exact in sites:
        paths = cached_paths(g)
        res.analysed(g, len(paths))
        gfr_ok = True
        used_as_test = False
        for p in paths:
            for i, e in enumerate(p.events):
                if e.kind == 'test' and any(x is call for x in ast.walk(e.node)):
                    used_as_test = True
                    if not e.pol:
                        continue
                    # positive: is the call asserted true?
                    lit = [l for l in logic.must(e.node, e.frame, True, ) if 'check_ingest_capacity' in l.atom]
                    lit0 = [l for alt in logic.dnf(e.node, e.frame, True, depth=0) for l in alt
                            if 'check_ingest_capacity' in l.atom and l.pol]
                    if not lit0:
                        continue
                    spawn = None
                    for x in p.events[i + 1:]:
                        if x.kind in ('back', 'exit'):
                            break
                        if x.kind == 'stmt':
                            for n in ast.walk(x.node):
                                if is_spawn(n) and call_name(n.args[0]) == 'allocate_ingest':
                                    spawn = n
                    if spawn is None:
                        gfr_ok = False
                        res.bad('C05.L1', g, call, 'true verdict without allocate_ingest',
                                'a path on which check_ingest_capacity returned true does not start '
                                'allocate_ingest: the reservation is never released', path=p.describe())
                    else:
                        a0 = canon.c(call.args[0], e.frame) if call.args else None
                        b0 = canon.c(spawn.args[0].args[0], e.frame) if spawn.args[0].args else None
                        if a0 != b0:
                            gfr_ok = False
                            res.bad('C05.L1', g, spawn, 'ingest started for another observation',
                                    'capacity checked for %s but ingest started for %s' % (a0, b0))
                        tel_frames.append((g, call, spawn, e.frame))
        if not used_as_test:
            res.bad('C05.L1', g, call, 'verdict of check_ingest_capacity not tested',
                    '%s ignores the verdict of check_ingest_capacity' % g.qual)
        elif gfr_ok:
            res.ok('C05.L1', g, call, 'true verdict => allocate_ingest spawned for the same observation')
    # ---- release -----------------------------------------------------------
    r = repo.func('Scheduler.allocate_ingest')
    rpaths = [p for p in cached_paths(r) if feasible_enum(repo, p)]
    res.analysed(r, len(rpaths))
    if n_acq:
        rel_ok = True
        rel_node = None
        for p in rpaths:
            if p.exit in ('raise', 'cycle'):
                continue
            rel = [ef for ef in path_effects(canon, p.events)
                   if ef.loc == COUNTER and ef.kind == 'aug-']
            if len(rel) != 1:
                rel_ok = False
                res.bad('C05.L1', r, r.node, 'exit with %d release(s)' % len(rel),
                        'allocate_ingest can end having released the pending-ingest reservation %d '
                        'times: the counter leaks or goes negative' % len(rel), path=p.describe())
                break
            rel_node = rel[0]
        if rel_ok and rel_node is not None and tel_frames:
            g, call, spawn, cfr = tel_frames[0]
            fa = Frame(f, cfr, bind_args(f, call, cfr), call)
            fb = Frame(r, cfr, bind_args(r, spawn.args[0], cfr), spawn.args[0])
            ops = [canon.c(v, fa) for k, v in acq_ops]
            relop = canon.c(rel_node.value, fb)
            if all(o == relop for o in ops):
                res.ok('C05.L1', r, rel_node.node, 'release subtracts the amount reserved', relop)
            else:
                res.bad('C05.L1', r, rel_node.node, 'release amount differs from reservation',
                        'reserved %s, released %s' % (ops, relop))
        elif rel_ok and rel_node is not None:
            res.ok('C05.L1', r, rel_node.node, 'every normal exit releases once')


# ---------------------------------------------------------------------- L2
def l2(repo, res):
    for f in repo.all_functions():
        if not f.is_generator or f.module.name.startswith(('topsim.utils', 'topsim.recipes')):
            continue
        loops = [n for n in walk_no_nested(f.node) if isinstance(n, ast.While)]
        if not loops:
            continue
        res.analysed(f, len(cached_paths(f)))
        for lp in loops:
            segs = iteration_segments(f, lp)
            bad = None
            n_back = 0
            for seg, how in segs:
                if how != 'back':
                    continue
                n_back += 1
                if not any(e.kind == 'stmt' and contains_yield(e.node) for e in seg):
                    # `if done: continue` under `while not done:` -- what this cycle learned makes
                    # the loop test false, so it leaves the loop instead of spinning
                    fr0 = next((e.frame for e in seg if e.frame is not None), None)
                    if fr0 is not None and not is_const_true(lp.test) and not locally_feasible(
                            list(seg) + [Ev('test', lp.test, fr0, pol=True)]):
                        continue
                    bad = seg
                    break
            what = 'while-loop at line %d: every cycle yields' % lp.lineno
            if bad is not None:
                res.bad('C05.L2', f, lp, 'cycle without yield in %s' % f.qual,
                        'a cycle of this loop returns to the loop head without yielding to SimPy: '
                        'simulated time cannot advance (livelock)',
                        path=['%s:%d %s' % (f.qual, e.line, 'T' if e.pol else 'F') for e in bad if e.kind == 'test'],
                        what=what)
            else:
                res.ok('C05.L2', f, lp, what, '%d cycle path(s)' % n_back)


# ---------------------------------------------------------------------- L12
def l12(repo, res, canon):
    """An algorithm that draws its candidates from the ready pool must put the successors of every
    task it proposes into that pool: nothing else ever adds them, so a task whose predecessor was
    proposed without this is never offered and the workflow never ends."""
    res.rule('C05.L12', 'an algorithm whose candidates come from task_pool adds graph.successors(t) of every task t it '
                        'proposes to the pool (directly, through a set merged into the pool, or through a list of the '
                        'proposed tasks walked afterwards)')
    from .c03 import ALGS
    from .c17 import map_stores, returned_map_name
    n = 0
    for q in ALGS:
        f = repo.func(q)
        fr = Frame(f)
        pool = f.params[5] if len(f.params) > 5 else 'task_pool'
        cand = None
        for lp in [x for x in walk_no_nested(f.node) if isinstance(x, ast.For)]:
            names = {y.id for y in ast.walk(lp.iter) if isinstance(y, ast.Name)}
            al = {k for k in names if k in fr.aliases and any(
                isinstance(y, ast.Name) and y.id == pool for y in ast.walk(fr.aliases[k]))}
            if pool in names or al:
                cand = lp
                break
        m = returned_map_name(f)
        if cand is None or m is None:
            res.ok('C05.L12', f, None, '%s does not draw its candidates from the ready pool' % q, 'rule does not apply')
            continue
        stores, _others = map_stores(f, m)
        store_nodes = {id(s_[0]) for s_ in stores}
        inside = {id(x) for x in ast.walk(cand)}

        def succ_of(node, var):
            return any(isinstance(x, ast.Call) and call_name(x) == 'successors' and x.args and isinstance(
                x.args[0], ast.Name) and x.args[0].id == var for x in ast.walk(node))

        def flows_to_pool(x):
            if x == pool:
                return True
            for st in walk_no_nested(f.node):
                if id(st) in inside:
                    continue
                if isinstance(st, ast.Call) and isinstance(st.func, ast.Attribute) and st.func.attr in ('update', 'extend') \
                        and isinstance(st.func.value, ast.Name) and st.func.value.id == pool and st.args and isinstance(
                            st.args[0], ast.Name) and st.args[0].id == x:
                    return True
                if isinstance(st, ast.AugAssign) and isinstance(st.op, ast.BitOr) and isinstance(st.target, ast.Name) \
                        and st.target.id == pool and isinstance(st.value, ast.Name) and st.value.id == x:
                    return True
                if isinstance(st, ast.Assign) and any(isinstance(t, ast.Name) and t.id == pool for t in st.targets) and any(
                        isinstance(y, ast.Name) and y.id == x for y in ast.walk(st.value)) and any(
                            isinstance(y, ast.Name) and y.id == pool for y in ast.walk(st.value)):
                    return True
            return False
        MUT = ('update', 'add', 'append', 'extend', 'appendleft', 'insert', 'union', 'setdefault')

        def key_of(e):
            """a local or an attribute chain on a local (`delta.added`): the name of a container"""
            parts = []
            while isinstance(e, ast.Attribute):
                parts.append(e.attr)
                e = e.value
            if isinstance(e, ast.Name):
                return '.'.join([e.id] + parts[::-1])
            return None

        def taint_of(e, taint):
            out = set()
            for x in ast.walk(e):
                if isinstance(x, (ast.Name, ast.Attribute)):
                    k_ = key_of(x)
                    if k_ in taint:
                        out |= taint[k_]
            for x in ast.walk(e):
                if isinstance(x, ast.Call) and call_name(x) == 'successors' and x.args and any(
                        isinstance(y, ast.Name) and 'task' in taint.get(y.id, ()) for y in ast.walk(x.args[0])):
                    out.add('succ')
            return out

        def propagate(taint):
            changed = True
            rounds = 0
            while changed and rounds < 12:
                changed = False
                rounds += 1
                for st in walk_no_nested(f.node):
                    pairs = []
                    if isinstance(st, ast.Assign):
                        t = taint_of(st.value, taint)
                        for tg in st.targets:
                            pairs += [(y.id, t) for y in ast.walk(tg) if isinstance(y, ast.Name)]
                    elif isinstance(st, ast.AugAssign) and key_of(st.target):
                        pairs.append((key_of(st.target), taint_of(st.value, taint)))
                    elif isinstance(st, (ast.For, ast.comprehension)):
                        if st is cand:
                            continue          # the candidates themselves: not what THIS proposal hands on
                        t = taint_of(st.iter, taint)
                        pairs += [(y.id, t) for y in ast.walk(st.target) if isinstance(y, ast.Name)]
                    elif isinstance(st, ast.Call) and isinstance(st.func, ast.Attribute) and st.func.attr in MUT \
                            and key_of(st.func.value):
                        t = set()
                        for a_ in list(st.args) + [k.value for k in st.keywords]:
                            t |= taint_of(a_, taint)
                        pairs.append((key_of(st.func.value), t))
                    for nm, t in pairs:
                        if t - taint.get(nm, set()):
                            taint[nm] = taint.get(nm, set()) | t
                            changed = True
            return taint
        ok, why, nseg = True, '', 0
        for seg, how in iteration_segments(f, cand):
            snodes = [e.node for e in seg if e.kind == 'stmt' and any(id(x) in store_nodes for x in ast.walk(e.node))]
            if not snodes or how == 'raise':
                continue
            nseg += 1
            key = None
            for s_ in stores:
                if any(s_[0] is x for sn in snodes for x in ast.walk(sn)):
                    key = s_[1]
            kv = key.id if isinstance(key, ast.Name) else None
            # what this iteration hands on about the task it proposes: the task itself or its successors
            taint = {}
            if kv:
                seed = {kv: {'task'}}
                taint = seed          # grows in statement order: later statements of the iteration see earlier ones
                for e in seg:
                    if e.kind != 'stmt':
                        continue
                    for x in ast.walk(e.node):
                        if isinstance(x, ast.Call) and isinstance(x.func, ast.Attribute) and x.func.attr in MUT and key_of(
                                x.func.value) and key_of(x.func.value) != m:
                            t = set()
                            for a_ in list(x.args) + [k.value for k in x.keywords]:
                                t |= taint_of(a_, seed)
                            if t:
                                taint[key_of(x.func.value)] = taint.get(key_of(x.func.value), set()) | t
                        elif isinstance(x, ast.AugAssign) and key_of(x.target):
                            t = taint_of(x.value, seed)
                            if t:
                                taint[key_of(x.target)] = taint.get(key_of(x.target), set()) | t
                        elif isinstance(x, ast.Assign) and len(x.targets) == 1 and isinstance(x.targets[0], ast.Name) \
                                and x.targets[0].id != kv:
                            t = taint_of(x.value, seed)
                            if t:
                                taint[x.targets[0].id] = taint.get(x.targets[0].id, set()) | t
            taint = dict(taint)
            taint.pop(kv, None)
            final = propagate(taint)
            pools = {pool} | {st.targets[0].id for st in walk_no_nested(f.node) if isinstance(st, ast.Assign)
                              and len(st.targets) == 1 and isinstance(st.targets[0], ast.Name)
                              and isinstance(st.value, ast.Name) and st.value.id == pool}
            fed = any('succ' in final.get(p_, set()) for p_ in pools)
            if not fed:
                ok, why = False, ('%s proposes a task on a path that does not put graph.successors(task) into the ready pool: '
                                  'its successors are never offered and the workflow never finishes' % q)
        n += nseg
        (res.ok if ok and nseg else res.bad)('C05.L12', f, cand, 'successors of every proposed task enter the ready pool (%s)' % q,
                                             '%d proposing path(s)' % nseg if ok and nseg else why or 'no proposing path found')
    if not n:
        raise AnalysisError('no algorithm proposes from the ready pool (C05.L12 anchor moved)')


# ---------------------------------------------------------------------- L15
def l15(repo, res, canon):
    """A data attribute read from something the same path has just found to be falsy / None:
    `if not self.slot: size += self.slot.total_data_size`.  Whatever falsy value it holds (None, 0,
    an empty container) has no such attribute: AttributeError on the first ordinary call."""
    res.rule('C05.L15', 'no data attribute is read from a location the same path has established to be falsy / None '
                        '(with no assignment, call or yield in between)')
    from .defined import reachable, LIVE_PREFIXES
    reach = reachable(repo)
    n_tests = 0
    for f in repo.all_functions():
        if not f.module.name.startswith(LIVE_PREFIXES) or (
                f.module.name, f.cls.name if f.cls else None, f.name) not in reach:
            continue
        seen = set()
        for p in cached_paths(f):
            falsy = {}          # canonical location -> test node
            for e in p.events:
                if e.frame is not None and e.frame.func is not f:
                    continue
                if e.kind == 'test' and e.node is not None:
                    tn, tp = e.node, bool(e.pol)
                    while isinstance(tn, ast.UnaryOp) and isinstance(tn.op, ast.Not):
                        tn, tp = tn.operand, not tp
                    loc = None
                    if isinstance(tn, (ast.Name, ast.Attribute, ast.Subscript)):
                        loc, is_falsy = canon.c(tn, e.frame), not tp
                    elif isinstance(tn, ast.Compare) and len(tn.ops) == 1 and isinstance(tn.ops[0], (ast.Is, ast.IsNot)) \
                            and isinstance(tn.comparators[0], ast.Constant) and tn.comparators[0].value is None:
                        loc, is_falsy = canon.c(tn.left, e.frame), (isinstance(tn.ops[0], ast.Is) == tp)
                    if loc is not None:
                        n_tests += 1
                        if is_falsy:
                            falsy[loc] = tn
                        else:
                            falsy.pop(loc, None)
                    # reads inside the same test after the check (`x and x.a`) are guarded by short-circuit: skip
                    continue
                if e.kind in ('loop', 'for', 'for0', 'back'):
                    falsy.clear()
                    continue
                if e.kind != 'stmt' or e.node is None:
                    continue
                n = e.node
                for x in ast.walk(n):
                    if isinstance(x, ast.Attribute) and isinstance(x.ctx, ast.Load) and falsy:
                        base = canon.c(x.value, e.frame)
                        if base in falsy and (f.qual, base, x.attr) not in seen:
                            # a method call on an empty container (`.append`) is fine; a data attribute is not
                            par_call = any(isinstance(c, ast.Call) and c.func is x for c in ast.walk(n))
                            if not par_call:
                                seen.add((f.qual, base, x.attr))
                                res.bad('C05.L15', f, x, '%s.%s read although %s is falsy here' % (
                                    short(ast.unparse(x.value), 40), x.attr, short(ast.unparse(x.value), 40)),
                                    'on this path `%s` has just been found to be falsy / None and then `.%s` is read from it: '
                                    'AttributeError -- the run does not complete' % (short(ast.unparse(x.value), 50), x.attr),
                                    path=p.describe())
                # any assignment, call or yield may change what was tested
                if isinstance(n, (ast.Assign, ast.AugAssign, ast.AnnAssign, ast.Delete)) or any(
                        isinstance(x, (ast.Call, ast.Yield, ast.YieldFrom, ast.Await)) for x in ast.walk(n)):
                    if isinstance(n, (ast.Assign, ast.AugAssign, ast.AnnAssign)) and not any(
                            isinstance(x, (ast.Call, ast.Yield, ast.YieldFrom)) for x in ast.walk(n)):
                        tg = n.targets if isinstance(n, ast.Assign) else [n.target]
                        for t_ in tg:
                            falsy.pop(canon.c(t_, e.frame), None)
                    else:
                        falsy.clear()
    res.ok('C05.L15', 'topsim', None, '%d truthiness / None tests followed along their paths' % n_tests, 'no dereference of a falsy value')
    if n_tests < 50:
        raise AnalysisError('only %d truthiness tests found (C05.L15 anchor moved)' % n_tests)


# ---------------------------------------------------------------------- L13
def l13(repo, res, canon):
    """A process loop that can never be entered: the statements in front of it establish a fact
    (a guard that raises unless `status is RUNNING`) that its test contradicts, or the test is the
    constant False.  The process then ends at once and its actor never does anything."""
    res.rule('C05.L13', 'the loop of a SimPy process can be entered: its test is not constant false and does not contradict '
                        'what the guards in front of it have established')

    def const_of(e):
        if isinstance(e, ast.Constant):
            return ('c', repr(e.value))
        if isinstance(e, ast.Attribute) and isinstance(e.value, ast.Name) and e.value.id[:1].isupper():
            return ('e', e.value.id, e.attr)          # Enum member
        return None

    def atom(t, pol, fr):
        """(location, '==' or '!=', constant) for `X is/==/is not/!= C` with polarity applied"""
        while isinstance(t, ast.UnaryOp) and isinstance(t.op, ast.Not):
            t, pol = t.operand, not pol
        if isinstance(t, ast.Compare) and len(t.ops) == 1 and isinstance(t.ops[0], (ast.Is, ast.Eq, ast.IsNot, ast.NotEq)):
            l, r = t.left, t.comparators[0]
            if const_of(l) is not None and const_of(r) is None:
                l, r = r, l
            c = const_of(r)
            if c is None or const_of(l) is not None:
                return None
            eq = isinstance(t.ops[0], (ast.Is, ast.Eq))
            return canon.c(l, fr), '==' if eq == pol else '!=', c
        return None

    def value(t, facts, fr):
        """True / False / None (unknown) of test t under the facts"""
        if isinstance(t, ast.Constant):
            return bool(t.value)
        if isinstance(t, ast.UnaryOp) and isinstance(t.op, ast.Not):
            v = value(t.operand, facts, fr)
            return None if v is None else not v
        if isinstance(t, ast.BoolOp):
            vs = [value(x, facts, fr) for x in t.values]
            if isinstance(t.op, ast.And):
                return False if any(v is False for v in vs) else (True if all(v is True for v in vs) else None)
            return True if any(v is True for v in vs) else (False if all(v is False for v in vs) else None)
        a = atom(t, True, fr)
        if a is None:
            return None
        loc, op, c = a
        for (floc, fop, fc) in facts:
            if floc != loc:
                continue
            if fop == '==':
                same = fc == c
                return same if op == '==' else not same
            if fop == '!=' and fc == c:
                return op == '!='
        return None
    n = 0
    for f in repo.all_functions():
        if not f.is_generator or f.module.name.startswith(('topsim.utils', 'topsim.recipes')):
            continue
        top = [st for st in f.node.body if isinstance(st, ast.While)]
        for lp in top:
            n += 1
            dead = None
            if isinstance(lp.test, ast.Constant) and not lp.test.value:
                dead = 'its test is the constant %r' % lp.test.value
            else:
                verdicts = []
                for p in cached_paths(f):
                    idx = [i for i, e in enumerate(p.events) if e.kind == 'loop' and e.node is lp]
                    if not idx:
                        continue
                    facts = []
                    for e in p.events[:idx[0]]:
                        if e.kind == 'test':
                            a = atom(e.node, bool(e.pol), e.frame)
                            if a is not None:
                                facts.append(a)
                        elif e.kind == 'stmt' and e.node is not None:
                            # an assignment to the location or any call/yield may change it
                            if any(isinstance(x, (ast.Call, ast.Yield, ast.YieldFrom, ast.Await)) for x in ast.walk(e.node)) \
                                    and not _is_logging_stmt(e.node):
                                facts = []
                            elif isinstance(e.node, (ast.Assign, ast.AugAssign)):
                                tg = e.node.targets if isinstance(e.node, ast.Assign) else [e.node.target]
                                locs = {canon.c(t, e.frame) for t in tg}
                                facts = [a for a in facts if a[0] not in locs]
                    verdicts.append(value(lp.test, facts, p.events[idx[0]].frame or Frame(f)))
                if verdicts and all(v is False for v in verdicts):
                    dead = 'the guards in front of it establish the opposite of its test `%s`' % short(ast.unparse(lp.test), 60)
            what = 'loop of %s at line %d can be entered' % (f.qual, lp.lineno)
            if dead:
                res.bad('C05.L13', f, lp, 'dead process loop in %s' % f.qual,
                        'the loop of this process can never be entered (%s): the process ends as soon as it is started and '
                        'its actor never acts -- the simulation cannot complete' % dead, what=what)
            else:
                res.ok('C05.L13', f, lp, what)
    if n < 5:
        raise AnalysisError('only %d top-level process loops found (C05.L13 anchor moved)' % n)


def _is_logging_stmt(st):
    return isinstance(st, ast.Expr) and isinstance(st.value, ast.Call) and isinstance(st.value.func, ast.Attribute) \
        and isinstance(st.value.func.value, ast.Name) and st.value.func.value.id.lower() in ('logger', 'logging', 'log')


# ---------------------------------------------------------------------- L3
def l3(repo, res, canon):
    sites = repo.call_sites({'Cluster.release_batch_resources'})
    good = []
    for g, call, spawned, exact in sites:
        fr = Frame(g)
        if g.qual == 'Scheduler._generate_current_schedule':
            arg = canon.p(call.args[0], fr) if call.args else ''
            if arg.endswith('.name'):
                good.append((g, call, 'scheduler, at workflow end'))
        elif g.cls is not None and g.cls.is_subclass_of('Scheduling') and g.name == 'run':
            arg = canon.p(call.args[0], fr) if call.args else ''
            if arg.endswith('.id'):
                good.append((g, call, 'algorithm, when no tasks remain'))
    batch = repo.func('BatchProcessing.run')
    sched = repo.func('Scheduler._generate_current_schedule')
    has_sched = [x for x in good if x[0] is sched]
    has_alg = [x for x in good if x[0] is batch]
    if has_sched or has_alg:
        for g, call, why in has_sched + has_alg:
            res.ok('C05.L3', g, call, 'partition released by the %s' % why)
    else:
        res.bad('C05.L3', sched, sched.node, 'no release of batch partitions at workflow end',
                'neither the batch algorithm nor the scheduler releases a finished workflow\'s '
                'reservation: later workflows can never provision machines')
    # the scheduler-side release must be on the finished path
    for g, call, why in has_sched:
        for p in cached_paths(g):
            idx = [i for i, e in enumerate(p.events) if stmt_contains(e, lambda x: x is call)]
            if idx:
                break
    # release implementation: idle machines go back to available and the key is dropped
    # (judged by effects, with the Cluster helpers it calls inlined -- not by helper names)
    from ..paths import expanded_paths, feasible
    from .cluster_units import IDLE_PREFIX, POOLS, inline_cluster_only
    rel = repo.func('Cluster.release_batch_resources')
    avail = [k for k, v in POOLS.items() if v == 'available'][0]
    both = drops_only = 0
    for p in expanded_paths(repo, rel, depth=3, want=inline_cluster_only):
        if not feasible(p) or p.exit == 'raise':
            continue
        effs = path_effects(canon, p.events)
        drops = [ef for ef in effs if ef.loc == IDLE_PREFIX and ef.kind == 'pop']
        back = [ef for ef in effs if ef.loc == avail and ef.kind in ('append', 'extend')]
        if drops and back:
            both += 1
        elif drops and not any(e.kind == 'for0' for e in p.events):
            # (a skipped return loop = an empty reservation: nothing to give back)
            drops_only += 1
    ok3 = both > 0 and drops_only == 0
    (res.ok if ok3 else res.bad)(
        'C05.L3', rel, rel.node, 'release returns machines and drops the reservation',
        '%d path(s) append the reserved machines to available and drop the key' % both if ok3 else
        'release_batch_resources does not both return the reserved machines to the available pool and drop the '
        'reservation key (%d path(s) do both, %d only drop the key)' % (both, drops_only))


# ---------------------------------------------------------------------- L6
def l6(repo, res, canon):
    """A scheduling algorithm takes a machine off its per-round free list only when it proposes
    it: in every iteration of the task loop, removals from the free list == stores into the
    allocation map.  (A machine consumed by a task that is then skipped -- predecessors still
    running -- is withheld from the ready tasks behind it: with few machines they starve.)"""
    from .c17 import returned_map_name
    from ..paths import assigned_names
    res.rule('C05.L6', 'per iteration of an algorithm\'s task loop: machines taken off the round\'s free list == proposals made')
    pc = ProvCanon(repo)
    n_loops = 0
    for f in repo.all_functions():
        if f.cls is None or f.name != 'run' or not f.cls.is_subclass_of('Scheduling') or f.cls.name == 'Scheduling':
            continue
        fr = Frame(f)
        m = returned_map_name(f)
        if m is None:
            continue
        # locals that hold a copy of one of the cluster's free lists
        free = set()
        for name, defs in assigned_names(f).items():
            for d in defs:
                if isinstance(d, ast.Assign) and isinstance(d.value, ast.Call):
                    P = pc.p(d.value, fr)
                    if P.startswith("Cluster._resources["):
                        free.add(name)
        if not free:
            continue
        for lp in [n for n in walk_no_nested(f.node) if isinstance(n, ast.For)]:
            takes_here = [n for n in ast.walk(lp) if isinstance(n, ast.Call) and isinstance(n.func, ast.Attribute)
                          and isinstance(n.func.value, ast.Name) and n.func.value.id in free
                          and n.func.attr in ('remove', 'pop', 'popleft')]
            if not takes_here or any(isinstance(x, ast.For) and x is not lp and any(
                    t is y for t in takes_here for y in ast.walk(x)) for x in ast.walk(lp)):
                continue
            n_loops += 1
            res.analysed(f, 0)
            bad = None
            for seg, how in iteration_segments(f, lp):
                if how == 'raise':
                    continue
                takes = props = 0
                for e in seg:
                    if e.kind != 'stmt':
                        continue
                    for x in ast.walk(e.node):
                        if isinstance(x, ast.Call) and isinstance(x.func, ast.Attribute) and isinstance(
                                x.func.value, ast.Name) and x.func.value.id in free and x.func.attr in ('remove', 'pop', 'popleft'):
                            takes += 1
                    if isinstance(e.node, ast.Assign):
                        for t in e.node.targets:
                            if isinstance(t, ast.Subscript) and isinstance(t.value, ast.Name) and t.value.id == m:
                                props += 1
                if takes != props:
                    bad = (seg, takes, props)
                    break
            what = '%s: machines taken from the free list are proposed (loop at line %d)' % (f.qual, lp.lineno)
            if bad is None:
                res.ok('C05.L6', f, lp, what)
            else:
                res.bad('C05.L6', f, lp, what,
                        'one iteration of the task loop takes %d machine(s) off the round\'s free list but proposes %d: '
                        'a machine consumed for a task that is then skipped is withheld from the ready tasks behind it '
                        '(with few machines they starve and the run never ends)' % (bad[1], bad[2]),
                        path=[repr(e) for e in bad[0] if e.kind == 'test'][:12])
    if not n_loops:
        raise AnalysisError('no scheduling algorithm takes machines off a free list (C05.L6 anchor moved)')


# ---------------------------------------------------------------------- L4a
def _nonempty_guard(must, loc):
    return (Lit('empty(%s)' % loc, False) in must) or (Lit('truthy(%s)' % loc, True) in must)


def l4a(repo, res, canon, logic):
    sites = []
    for f in repo.all_functions():
        if f.cls is None or f.cls.name not in ('Buffer', 'HotBuffer', 'ColdBuffer'):
            continue
        fr = Frame(f)
        for n in walk_no_nested(f.node):
            loc = None
            if isinstance(n, ast.Subscript) and isinstance(n.ctx, ast.Load) and (
                    isinstance(n.slice, ast.Constant) and isinstance(n.slice.value, int) or
                    isinstance(n.slice, ast.UnaryOp) and isinstance(n.slice.operand, ast.Constant)):
                loc = canon.c(n.value, fr)
            elif isinstance(n, ast.Call) and isinstance(n.func, ast.Attribute) and \
                    n.func.attr == 'pop' and len(n.args) <= 1:
                loc = canon.c(n.func.value, fr)
            if loc in STORED:
                sites.append((f, n, loc))
    for f, n, loc in sites:
        callers = repo.call_sites({f.qual})
        if not callers and f.name not in ('run',):
            res.note('L4a: %s has no caller in topsim (dead); its %s is not judged' % (
                f.qual, short(ast.unparse(n), 50)))
            continue
        what = '%s on %s guarded by non-emptiness' % (short(ast.unparse(n), 60), loc)
        paths = cached_paths(f)
        res.analysed(f, len(paths))
        unguarded = None
        for p in paths:
            for i, e in enumerate(p.events):
                if stmt_contains(e, lambda x: x is n):
                    must = path_must(logic, p, i, depth=2)
                    # the guard may sit in the same test, earlier in an `and`
                    if e.kind == 'test':
                        must |= _and_prefix_must(logic, e, n)
                    if not _nonempty_guard(must, loc):
                        unguarded = p
                    break
        if unguarded is None:
            res.ok('C05.L4a', f, n, what, 'guard in %s' % f.qual)
            continue
        # one level up: every caller guards the call
        all_callers = bool(callers) and not any(sp for _, _, sp, _ in callers)
        witness = None
        for g, call, spawned, exact in callers:
            if not all_callers:
                break
            for p in cached_paths(g):
                for i, e in enumerate(p.events):
                    if stmt_contains(e, lambda x: x is call):
                        must = path_must(logic, p, i, depth=2)
                        if e.kind == 'test':
                            must |= _and_prefix_must(logic, e, call)
                        if not _nonempty_guard(must, loc):
                            all_callers, witness = False, (g, p)
                        break
        if all_callers:
            res.ok('C05.L4a', f, n, what, 'guard in every caller (%s)' % ', '.join(
                sorted({g.qual for g, _, _, _ in callers})))
        else:
            p = witness[1] if witness else unguarded
            res.bad('C05.L4a', f, n, '%s unguarded' % short(ast.unparse(n), 70),
                    'this operation on %s is reached without a non-emptiness guard; the list is '
                    'legitimately empty (e.g. data still being ingested), so IndexError escapes the '
                    'SimPy process and the simulation aborts' % loc, path=p.describe())


def l4c(repo, res, canon, logic):
    """every read `idle[k]` of the reservation table is dominated by `k in idle` (in the function,
    earlier in the same `and`, by a store of that key on the path, or in every caller): else
    KeyError for an observation without a reservation -- which is the normal case for every
    algorithm but the batch one"""
    res.rule('C05.L4c', 'every read of the reservation table by key is dominated by a membership test of that key '
                        '(in the function or in every caller) or by a store of that key')
    IDLE = "Cluster._resources['idle']"
    cl = repo.cls('Cluster')
    n_sites = 0
    for name, f in sorted(cl.methods.items()):
        fr = Frame(f)
        sites = []
        if getattr(f, 'inlined', False):
            continue          # a helper judged where it was inlined
        for n in walk_no_nested(f.node):
            if isinstance(n, ast.Subscript) and isinstance(n.ctx, ast.Load) and canon.c(n.value, fr) == IDLE:
                sites.append(n)
        if not sites:
            continue
        callers = repo.call_sites({f.qual})
        paths = cached_paths(f)
        res.analysed(f, len(paths))
        for n in sites:
            n_sites += 1
            K = canon.c(n.slice, fr)
            lit = Lit('%s in %s' % (K, IDLE), True)
            what = '%s read under `%s in idle`' % (short(ast.unparse(n), 50), K)
            unguarded = None
            for p in paths:
                for i, e in enumerate(p.events):
                    if stmt_contains(e, lambda x: x is n):
                        must = path_must(logic, p, i, depth=1)
                        if e.kind == 'test':
                            must |= _and_prefix_must(logic, e, n)
                        stored = any(ef.loc == IDLE and ef.kind == 'store' and ef.arg == K
                                     for x in p.events[:i] for ef in effects_of_event(canon, x))
                        if lit not in must and not stored:
                            unguarded = p
                        break
            if unguarded is None:
                res.ok('C05.L4c', f, n, what, 'guard in %s' % f.qual)
                continue
            ok_callers = bool(callers) and not any(sp for _, _, sp, _ in callers) and isinstance(n.slice, ast.Name) \
                and n.slice.id in f.params
            witness = None
            if ok_callers:
                for g, call, spawned, exact in callers:
                    from ..paths import bind_args as _ba
                    gfr = Frame(g)
                    b = _ba(f, call, gfr)
                    arg = b.get(n.slice.id)
                    KA = canon.c(arg[0], gfr) if arg else None
                    glit = Lit('%s in %s' % (KA, IDLE), True)
                    for p in cached_paths(g):
                        for i, e in enumerate(p.events):
                            if stmt_contains(e, lambda x: x is call):
                                must = path_must(logic, p, i, depth=1)
                                if e.kind == 'test':
                                    must |= _and_prefix_must(logic, e, call)
                                stored = any(ef.loc == IDLE and ef.kind == 'store' and ef.arg == KA
                                             for x in p.events[:i] for ef in effects_of_event(canon, x))
                                if glit not in must and not stored:
                                    ok_callers, witness = False, p
                                break
            if ok_callers:
                res.ok('C05.L4c', f, n, what, 'guard in every caller (%s)' % ', '.join(sorted({g.qual for g, _, _, _ in callers})))
            else:
                res.bad('C05.L4c', f, n, '%s without a membership test' % short(ast.unparse(n), 60),
                        'the reservation table is read for a key that has not been tested to be in it: for an observation '
                        'without a reservation (every algorithm but the batch one, and every workflow after its release) this '
                        'is a KeyError that ends the run', path=(witness or unguarded).describe())
    if n_sites < 3:
        raise AnalysisError('only %d keyed reads of the reservation table found (C05.L4c anchor moved)' % n_sites)


def _and_prefix_must(logic, e, node):
    """Literals asserted by the conjuncts evaluated before `node` inside a test
    `A and B(node)` (short-circuit order)."""
    out = set()

    def rec(x):
        if isinstance(x, ast.BoolOp) and isinstance(x.op, ast.And):
            for v in x.values:
                if any(y is node for y in ast.walk(v)):
                    rec(v)
                    return
                out.update(logic.must(v, e.frame, True))
    rec(e.node)
    return out


# ---------------------------------------------------------------------- L4b
def l4b(repo, res, canon, logic):
    for c in repo.subclasses('Scheduling'):
        for f in c.methods.values():
            if getattr(f, 'inlined', False):
                continue      # judged where the normaliser inlined it
            fr = Frame(f)
            rm = [n for n in walk_no_nested(f.node) if isinstance(n, ast.Call) and isinstance(
                n.func, ast.Attribute) and n.func.attr == 'remove' and isinstance(n.func.value, ast.Name)
                and len(n.args) == 1]
            if not rm:
                continue
            paths = cached_paths(f)
            res.analysed(f, len(paths))
            for n in rm:
                L = n.func.value.id
                x = n.args[0]
                bad = None
                for p in paths:
                    for i, e in enumerate(p.events):
                        if not stmt_contains(e, lambda y: y is n):
                            continue
                        must = path_must(logic, p, i, depth=1)
                        xs = canon.c(x, fr)
                        ok = Lit('%s in %s' % (xs, L), True) in must
                        if not ok and isinstance(x, ast.Name):
                            rv = reaching_value(p, i, x.id)
                            # the membership test may have been made on the expression the local was then bound to
                            if isinstance(rv, ast.expr) and Lit('%s in %s' % (canon.c(rv, fr), L), True) in must:
                                ok = True
                            if isinstance(rv, ast.Subscript) and isinstance(rv.value, ast.Name) and \
                                    rv.value.id == L and (
                                    Lit('empty(%s)' % L, False) in must or Lit('truthy(%s)' % L, True) in must):
                                ok = True
                            if not ok and rv is None and x.id in fr.aliases:
                                al = fr.aliases[x.id]
                                if isinstance(al, ast.Subscript) and isinstance(al.value, ast.Name) and \
                                        al.value.id == L and (Lit('empty(%s)' % L, False) in must or
                                                              Lit('truthy(%s)' % L, True) in must):
                                    ok = True
                        if not ok:
                            bad = p
                        break
                    if bad:
                        break
                what = '%s: element taken from / tested in the list' % short(ast.unparse(n), 60)
                if bad is None:
                    res.ok('C05.L4b', f, n, what)
                else:
                    res.bad('C05.L4b', f, n, '%s without membership' % short(ast.unparse(n), 60),
                            'the machine removed from the private free list %s need not be in it on this '
                            'path (two ready tasks planned on one machine): ValueError escapes the '
                            'scheduler process' % L, path=bad.describe())
