"""C04 -- everything runs exactly once and a completed run is quiescent.

T1 hand-off once: an observation is moved stored -> scheduled by one pop+append; the scheduler
   queues it and spawns its allocation process together, once
T2 task typestate: UNSCHEDULED (init only) -> SCHEDULED -> RUNNING -> FINISHED (only under
   <handle>.triggered); a submitted task leaves UNSCHEDULED in the submitting block; a proposal for a
   task that is not UNSCHEDULED is refused or never produced; a duplicate machine in one round is SKIPPED
T3 plan shrink: finished tasks (and only those) leave the plan each round; the workflow is closed only
   on `not schedule and status is FINISHED`; algorithms report FINISHED only for an empty plan
T4 termination predicate: start() leaves its run-to-completion loop only when is_finished();
   is_finished is truthful (C19 adopted)
T5 each actor loop registered exactly once (C11.U3 adopted)
T6 task table: one row per key of the cluster's finished table
T7 the scheduler itself releases the observation's batch reservation when the workflow closes
"""
import ast
import re

from ..index import AnalysisError, is_spawn, walk_no_nested
from ..norm import Canon, Lit, Logic, ProvCanon, effects_of_event, path_effects, effects_along
from ..paths import Frame, cached_paths, contains_yield, first_segment, is_const_true
from . import cluster_units as CU
from .common import (bound_args, borrow, call_name, enclosing_loops, iteration_segments, path_must,
                     short, stmt_contains)

FLOORS = {'C04.T12': 1, 'C04.T15': 4, 'C04.T14': 4, 'C04.T10': 1, 'C04.T1': 2, 'C04.T2': 7, 'C04.T3': 3, 'C04.T4': 1, 'C04.T6': 1, 'C04.T7': 1, 'C04.T8': 1}

QUEUE = 'Scheduler.observation_queue'
ORDER = ['UNSCHEDULED', 'SCHEDULED', 'RUNNING', 'FINISHED']


def check(repo, res, tier):
    canon = Canon(repo)
    pc = ProvCanon(repo)
    logic = Logic(canon)
    res.rule('C04.T1', 'stored -> scheduled by one pop + append; queue.append and the allocate_tasks spawn occur together')
    res.rule('C04.T2', 'writes to task_status follow UNSCHEDULED -> SCHEDULED -> RUNNING -> FINISHED; FINISHED only under '
                       '.triggered; submission leaves UNSCHEDULED at once; stale proposals are refused; duplicates are skipped')
    res.rule('C04.T3', '_update_current_plan drops exactly the FINISHED tasks; close only on (not schedule and FINISHED)')
    res.rule('C04.T4', 'run-to-completion loop: `while not is_finished(): env.run(now + 1)` with no other exit')
    res.rule('C04.T6', 'finished_task_time_data has one entry per key of tasks.finished')
    res.rule('C04.T7', 'the scheduler releases release_batch_resources(observation.name) in the closing branch')
    res.assumptions += ['that every task of every DAG is eventually offered (liveness) and final buffer/pool values are not decided',
                        'task ids are unique (C14.G2), so one key per task in the finished table']
    t1(repo, res, canon, pc, logic)
    t2(repo, res, canon, pc, logic)
    t3(repo, res, canon, pc, logic)
    t4(repo, res, canon)
    t6(repo, res, canon, pc)
    t10(repo, res, logic)
    t12(repo, res, canon, logic)
    t14(repo, res, canon, logic)
    t15(repo, res)
    t2b(repo, res, canon, logic)
    from . import c11, c19
    borrow(repo, res, tier, c19, {'C19.K', 'C19.F'}, 'C04.T4')
    borrow(repo, res, tier, c11, {'C11.U3'}, 'C04.T5')
    from . import c09, c05
    res.rule('C04.T9', 'adopted: a finished task returns its machine to its observation\'s reservation while that '
                       'exists (C09.R4) -- otherwise the reservation entry is never dropped and the run does not end quiescent')
    borrow(repo, res, tier, c09, {'C09.R4'}, 'C04.T9')
    res.rule('C04.T16', 'adopted C05.L4c: releasing a reservation never raises for an observation that holds none (the second '
                        'release of a finished workflow, every non-batch algorithm): an exception there kills the scheduler process '
                        'and the run ends with observations queued and reservations held')
    borrow(repo, res, tier, c05, {'C05.L4c'}, 'C04.T16')
    from . import c02 as _c02
    res.rule('C04.T13', 'adopted C02.P2: machines move between pools one remove + one append at a time (else the run ends with '
                        'a machine twice in, or missing from, the available pool)')
    borrow(repo, res, tier, _c02, {'C02.P2'}, 'C04.T13')
    from . import c08
    res.rule('C04.T11', 'adopted C08.A7: an observation is finished exactly ast + duration after it started -- finished '
                        'early, its ingest loops stop before the last deposit, it is never handed to the buffer and its '
                        'workflow never runs')
    borrow(repo, res, tier, c08, {'C08.A7', 'C08.A12'}, 'C04.T11')


def t1(repo, res, canon, pc, logic):
    f = repo.func('HotBuffer.next_observation_for_processing')
    paths = cached_paths(f)
    res.analysed(f, len(paths))
    ok = True
    why = ''
    n = 0
    stored, sched = "HotBuffer.observations['stored']", "HotBuffer.observations['scheduled']"
    for p in paths:
        effs = path_effects(canon, p.events)
        pops = [ef for ef in effs if ef.loc == stored and ef.kind == 'pop']
        apps = [ef for ef in effs if ef.loc == sched and ef.kind == 'append']
        rets = [e.node for e in p.events if e.kind == 'stmt' and isinstance(e.node, ast.Return) and e.node.value is not None
                and not (isinstance(e.node.value, ast.Constant) and e.node.value.value is None)]
        if rets:
            n += 1
            if len(pops) != 1 or len(apps) != 1 or not (
                    apps[0].arg.startswith(stored) or
                    (apps[0].value is not None and pc.p(apps[0].value, apps[0].ev.frame).startswith(stored + '.pop('))):
                ok, why = False, ('handing out an observation pops %d and appends %d: it stays stored (handed out '
                                  'again next step) or is lost' % (len(pops), len(apps)))
            else:
                # the observation handed out is the one moved: the popped value itself, or the last
                # element of the scheduled list right after the append
                rv = pc.p(rets[-1].value, next(e.frame for e in p.events if e.kind == 'stmt' and e.node is rets[-1]))
                last = {sched + '[(-1)]', sched + '[-1]', '%s[(len(%s) - 1)]' % (sched, sched), '%s[len(%s) - 1]' % (sched, sched)}
                if not (rv.startswith(stored + '.pop(') or rv in last):
                    ok, why = False, ('the observation handed out is %s, not the one moved stored -> scheduled: with two '
                                      'observations waiting one is processed twice and one never' % short(rv, 60))
        elif pops or apps:
            ok, why = False, 'lists change on a path that hands out nothing'
    (res.ok if ok and n else res.bad)('C04.T1', f, None, 'hand-off moves the observation stored -> scheduled (one pop, one append)',
                                      'ok' if ok and n else why or 'nothing handed out')
    s = repo.func('Scheduler.run')
    sfr = Frame(s)
    sp = cached_paths(s)
    res.analysed(s, len(sp))
    ok = True
    why = ''
    n = 0
    for p in sp:
        apps = []
        spawns = []
        for e, _efs in effects_along(canon, p.events):
            for ef in _efs:
                if ef.loc == QUEUE and ef.kind == 'append':
                    apps.append(ef.arg)
            if e.kind == 'stmt':
                for x in ast.walk(e.node):
                    if is_spawn(x) and call_name(x.args[0]) == 'allocate_tasks':
                        spawns.append(canon.c(x.args[0].args[0], sfr))
        if apps or spawns:
            n += 1
            if apps != spawns or len(apps) != 1:
                ok, why = False, ('a scheduler step queues %s but spawns allocation for %s: a workflow is allocated '
                                  'twice or never' % (apps, spawns))
            else:
                must = path_must(logic, p, depth=0)
                if Lit('%s in %s' % (apps[0], QUEUE), False) not in must and Lit('%s in %s' % (apps[0], QUEUE), False) \
                        not in path_must(logic, p):
                    ok, why = False, 'an observation is queued without testing that it is not already queued'
                elif not any(l.pol and 'has_observations_ready_for_processing(' in l.atom for l in must):
                    ok, why = False, ('an observation is taken over from the buffer on a path that has not established '
                                      'has_observations_ready_for_processing(): nothing (None) or an observation the buffer '
                                      'wants to hold back is queued')
    (res.ok if ok and n else res.bad)('C04.T1', s, None, 'queue.append(obs) and spawn allocate_tasks(obs) occur together, for a new obs',
                                      'ok' if ok and n else why or 'the scheduler never starts allocation')


def t2b(repo, res, canon, logic):
    """the life cycle can complete: the path on which the cluster takes a finished task's machine
    back also writes FINISHED (the scheduler drops only FINISHED tasks from the plan)"""
    c = repo.func('Cluster.allocate_task_to_cluster')
    cfr = Frame(c)
    tparam = c.params[1]
    n = 0
    ok = True
    for p in cached_paths(c):
        if p.exit not in ('return', 'fall'):
            continue
        must = path_must(logic, p)
        if not any(l.pol and l.atom.endswith('.triggered)') for l in must):
            continue
        n += 1
        wrote = any(e.kind == 'stmt' and isinstance(e.node, ast.Assign) and isinstance(e.node.targets[0], ast.Attribute)
                    and e.node.targets[0].attr == 'task_status' and canon.c(e.node.targets[0].value, cfr) == tparam
                    and canon.c(e.node.value, cfr) == 'TaskStatus.FINISHED' for e in p.events)
        if not wrote:
            ok = False
    (res.ok if ok and n else res.bad)('C04.T2', c, None, 'the completion path marks the task FINISHED',
                                      '%d completion path(s)' % n if ok and n else
                                      'a task whose work has ended and whose machine was taken back is not marked FINISHED: it '
                                      'never leaves the plan and the workflow never closes')


def t14(repo, res, canon, logic):
    """The scheduler actor is alive for the whole run: it is switched to the status its loop insists
    on before the loop is registered, and the loop is left only on shutdown with nothing queued."""
    res.rule('C04.T14', 'Scheduler.start writes the status Scheduler.run insists on, Simulation.start calls it before it '
                        'registers the loop, and the loop is left only with an empty queue on shutdown')
    run = repo.func('Scheduler.run')
    rfr = Frame(run)
    res.analysed(run, len(cached_paths(run)))
    res.analysed(repo.func('Scheduler.start'), 1)
    loops = [st for st in run.node.body if isinstance(st, ast.While)]
    if not loops:
        res.bad('C04.T14', run, None, 'Scheduler.run has no top-level loop', 'the scheduler actor has no process loop')
        return
    lp = loops[0]
    # the status the entry guard insists on: `if self.status is not X: raise`
    need = None
    for p in cached_paths(run):
        if p.exit != 'raise':
            continue
        for e in p.events:
            if e.kind == 'test':
                tn, tp = e.node, e.pol
                while isinstance(tn, ast.UnaryOp) and isinstance(tn.op, ast.Not):
                    tn, tp = tn.operand, not tp
                if isinstance(tn, ast.Compare) and len(tn.ops) == 1 and isinstance(tn.ops[0], (ast.Is, ast.IsNot, ast.Eq, ast.NotEq)):
                    l_, r_ = canon.c(tn.left, rfr), canon.c(tn.comparators[0], rfr)
                    if r_ == 'Scheduler.status':
                        l_, r_ = r_, l_          # (operands in either order)
                    if l_ == 'Scheduler.status':
                        eq = isinstance(tn.ops[0], (ast.Is, ast.Eq))
                        if eq != tp:           # raises when status differs from the comparator
                            need = r_
            if e.kind in ('loop',):
                break
    st = repo.func('Scheduler.start')
    if need is not None:
        writes = [n for n in walk_no_nested(st.node) if isinstance(n, ast.Assign) and isinstance(n.targets[0], ast.Attribute)
                  and canon.c(n.targets[0], Frame(st)) == 'Scheduler.status']
        okw = bool(writes) and all(canon.c(n.value, Frame(st)) == need for n in writes)
        (res.ok if okw else res.bad)('C04.T14', st, writes[0] if writes else None, 'Scheduler.start sets status = %s' % need,
                                     'ok' if okw else 'Scheduler.start does not put the scheduler into the status %s that Scheduler.run '
                                     'insists on: the scheduler process raises as soon as it is started' % need)
        sim = repo.func('Simulation.start')
        sfr = Frame(sim)
        order = []
        for n in ast.walk(sim.node):
            if isinstance(n, ast.Call) and isinstance(n.func, ast.Attribute) and n.func.attr in ('start', 'run') \
                    and canon.c(n.func.value, sfr) in ('Scheduler', 'Simulation.scheduler'):
                order.append((n.lineno, n.col_offset, n.func.attr))
        order.sort()
        oks = [a for _, _, a in order][:2] == ['start', 'run']
        (res.ok if oks else res.bad)('C04.T14', sim, None, 'Simulation.start: scheduler.start() before scheduler.run() is registered',
                                     'ok' if oks else 'Simulation.start registers the scheduler loop without having started the scheduler '
                                     '(order found: %s): the loop raises at once' % [a for _, _, a in order])
    else:
        res.ok('C04.T14', run, None, 'Scheduler.run has no entry guard on its status', 'nothing to agree with')
    ok, why, n = True, '', 0
    for seg, how in iteration_segments(run, lp):
        if how not in ('break', 'return', 'fall'):
            continue
        n += 1
        class _P:
            events = seg
        must = path_must(logic, _P, depth=0)
        empty_q = any((l.atom in ('truthy(%s)' % QUEUE,) and not l.pol) or (l.atom == 'empty(%s)' % QUEUE and l.pol) for l in must)
        shut = any(l.pol and 'SchedulerStatus.SHUTDOWN' in l.atom and 'Scheduler.status' in l.atom for l in must)
        if not (empty_q and shut):
            ok, why = False, ('the scheduler loop is left on a path that has not established "nothing queued and shut down": the '
                              'scheduler stops while observations are still to come and nothing more is ever processed')
    (res.ok if ok else res.bad)('C04.T14', run, lp, 'the scheduler loop is left only on shutdown with an empty queue',
                                '%d leaving path(s)' % n if ok else why)
    # every round asks the buffer, under no other condition (a cheaper test put in front of the
    # question makes the scheduler miss an observation that became ready without that test changing)
    from ..index import guard_stack
    asks = [c for c in ast.walk(lp) if isinstance(c, ast.Call) and call_name(c) == 'has_observations_ready_for_processing']
    if not asks:
        res.bad('C04.T14', run, lp, 'every round of the scheduler loop asks the buffer for a ready observation',
                'the scheduler loop no longer calls has_observations_ready_for_processing')
    for c in asks:
        holder = None
        for stt in ast.walk(lp):
            if isinstance(stt, ast.stmt) and not isinstance(stt, (ast.While, ast.For)):
                tops = [stt.test] if isinstance(stt, ast.If) else [x for x in ast.iter_child_nodes(stt) if isinstance(x, ast.expr)]
                if any(c is y for t_ in tops for y in ast.walk(t_)):
                    holder = stt
                    break
        gs_ = (guard_stack(run.node, holder) or []) if holder is not None else []
        for j, g in enumerate(gs_):
            if g[0] == 'while' and g[1] is lp:
                gs_ = gs_[j + 1:]          # (what stands before the loop is the actor's entry guard)
                break
        conds = [g for g in gs_ if g[0] == 'if']
        sc = None
        if holder is not None:
            for x in ast.walk(holder.test if isinstance(holder, ast.If) else holder):
                if isinstance(x, ast.BoolOp):
                    for j, v in enumerate(x.values[1:], 1):
                        if any(c is y for y in ast.walk(v)):
                            sc = x.values[0]
                elif isinstance(x, ast.IfExp) and any(c is y for part in (x.body, x.orelse) for y in ast.walk(part)):
                    sc = x.test
        what = 'every round of the scheduler loop asks the buffer for a ready observation'
        if conds or sc is not None:
            t_ = conds[0][1] if conds else sc
            res.bad('C04.T14', run, c, what,
                    'the scheduler asks the buffer only when `%s` %s: an observation that becomes ready while that test says '
                    'otherwise (two ingests ending in one step, a count that happens not to change) is never picked up, its '
                    'workflow never runs and its data is never freed' % (
                        short(ast.unparse(t_), 70), 'holds' if (not conds or conds[0][2]) else 'does not hold'))
        else:
            res.ok('C04.T14', run, c, what)


def element_dependent_exits(loop):
    """[(break/return node, deciding test)] for early exits of a `for` loop whose directly deciding
    test depends on the current element: names derived from the loop variable inside the body
    (assigned from an expression that reads a derived name, or assigned under a test that does)."""
    tainted = {n.id for n in ast.walk(loop.target) if isinstance(n, ast.Name)}

    def reads(e):
        return any(isinstance(x, ast.Name) and x.id in tainted for x in ast.walk(e))
    for _ in range(6):
        before = len(tainted)

        def flow(stmts, under):
            for st in stmts:
                if isinstance(st, (ast.FunctionDef, ast.AsyncFunctionDef, ast.ClassDef)):
                    continue
                if isinstance(st, (ast.Assign, ast.AugAssign, ast.AnnAssign)):
                    tg = st.targets if isinstance(st, ast.Assign) else [st.target]
                    if under or (st.value is not None and reads(st.value)):
                        # (an accumulator carried round the loop -- `allocations, free = self._place(task, allocations, free)`,
                        #  `n += 1` -- is updated FROM the task but is not a property OF it: a self-update does not taint)
                        own = {y.id for y in ast.walk(st.value) if isinstance(y, ast.Name)} if st.value is not None else set()
                        for t in tg:
                            for x in ast.walk(t):
                                if isinstance(x, ast.Name) and isinstance(x.ctx, ast.Store) and x.id not in own \
                                        and not isinstance(st, ast.AugAssign):
                                    tainted.add(x.id)
                elif isinstance(st, (ast.For, ast.AsyncFor)):
                    if under or reads(st.iter):
                        for x in ast.walk(st.target):
                            if isinstance(x, ast.Name):
                                tainted.add(x.id)
                    flow(st.body, under or reads(st.iter))
                    flow(st.orelse, under)
                elif isinstance(st, (ast.If, ast.While)):
                    u = under or reads(st.test)
                    flow(st.body, u)
                    flow(st.orelse, u)
                elif isinstance(st, (ast.With, ast.AsyncWith)):
                    flow(st.body, under)
                elif isinstance(st, ast.Try):
                    for b in [st.body, st.orelse, st.finalbody] + [h.body for h in st.handlers]:
                        flow(b, under)
        flow(loop.body, False)
        if len(tainted) == before:
            break
    out = []

    def scan(stmts, decider, own):
        for st in stmts:
            if isinstance(st, (ast.FunctionDef, ast.AsyncFunctionDef, ast.ClassDef)):
                continue
            if (isinstance(st, ast.Break) and own) or isinstance(st, ast.Return):
                if decider is not None and reads(decider):
                    out.append((st, decider))
            elif isinstance(st, ast.If):
                scan(st.body, st.test, own)
                scan(st.orelse, st.test, own)
            elif isinstance(st, (ast.For, ast.AsyncFor, ast.While)):
                scan(st.body, decider, False)       # (a break there leaves the inner loop; a return leaves all)
                scan(st.orelse, decider, own)
            elif isinstance(st, (ast.With, ast.AsyncWith)):
                scan(st.body, decider, own)
            elif isinstance(st, ast.Try):
                for b in [st.body, st.orelse, st.finalbody] + [h.body for h in st.handlers]:
                    scan(b, decider, own)
    scan(loop.body, None, True)
    return out


def t15(repo, res):
    """The scan over the pool of ready tasks looks at every task: it may stop early when nothing more
    can be allocated in this step, never because of what the CURRENT task looks like (the tasks behind
    it in the scan order are independent of it)."""
    res.rule('C04.T15', 'in every scheduling algorithm the scan over the task pool is left early only for a reason that does not '
                        'depend on the task at hand (a task whose predecessors are unfinished is skipped, not the rest of the pool)')
    pc = ProvCanon(repo)
    n = 0
    for c in repo.subclasses('Scheduling', concrete_only=False):
        f = c.methods.get('run')
        if f is None:
            continue
        fr = Frame(f)
        pool = f.params[5] if len(f.params) > 5 else 'task_pool'
        for lp in [x for x in walk_no_nested(f.node) if isinstance(x, ast.For)]:
            it = pc.p(lp.iter, fr)
            if not re.search(r'\b%s\b|\.tasks\b' % re.escape(pool), it):
                continue
            n += 1
            bad = element_dependent_exits(lp)
            if bad:
                st, t_ = bad[0]
                res.bad('C04.T15', f, st, 'the scan over %s is left early only for task-independent reasons' % short(it, 50),
                        '%s leaves the scan over the pool when `%s` -- a test on the task at hand: the tasks behind it in the scan '
                        'order are never looked at in this step (and, if the condition persists, never at all): a ready task is '
                        'not executed' % ('break' if isinstance(st, ast.Break) else 'return', short(ast.unparse(t_), 70)))
            else:
                res.ok('C04.T15', f, lp, 'the scan over %s is left early only for task-independent reasons' % short(it, 50))
    if not n:
        raise AnalysisError('no scheduling algorithm scans a task pool (C04.T15 anchor moved)')


def t12(repo, res, canon, logic):
    """The allocation loop of one workflow: every round asks for a schedule, submits a non-empty
    one, carries what is left into the next round, and is left only when the workflow is reported
    finished.  Each clause is necessary for "every task of the workflow executes exactly once"."""
    res.rule('C04.T12', 'allocate_tasks: each round calls _generate_current_schedule with the carried schedule, submits a '
                        'non-empty schedule through _process_current_schedule (result carried on), and leaves the loop only '
                        'when the generated verdict says finished')
    a = repo.func('Scheduler.allocate_tasks')
    afr = Frame(a)
    gens = [n for n in walk_no_nested(a.node) if isinstance(n, ast.Assign) and isinstance(n.value, ast.Call)
            and call_name(n.value) == '_generate_current_schedule']
    shape = None
    if len(gens) == 1 and isinstance(gens[0].targets[0], ast.Tuple) and len(gens[0].targets[0].elts) == 4 and all(
            isinstance(x, ast.Name) for x in gens[0].targets[0].elts):
        shape = 'tuple'
    elif len(gens) == 1 and isinstance(gens[0].targets[0], ast.Name):
        shape = 'record'
    if shape is None:
        res.bad('C04.T12', a, gens[0] if gens else None, 'no single `plan, schedule, pool, finished = _generate_current_schedule(..)`',
                'the allocation loop does not obtain (plan, schedule, pool, finished) from _generate_current_schedule in one place')
        return
    g = gens[0]
    if shape == 'tuple':
        S, F = g.targets[0].elts[1].id, g.targets[0].elts[3].id
        FINS = {F}
        SS = {S}
    else:
        # step = _generate_current_schedule(..); schedule = step[1]; finished = step[3] (or tested directly)
        R = g.targets[0].id

        def comp(i):
            return [n.targets[0].id for n in walk_no_nested(a.node) if isinstance(n, ast.Assign) and len(n.targets) == 1
                    and isinstance(n.targets[0], ast.Name) and isinstance(n.value, ast.Subscript) and isinstance(
                        n.value.value, ast.Name) and n.value.value.id == R and isinstance(n.value.slice, ast.Constant)
                    and n.value.slice.value == i]
        ss = comp(1)
        if len(ss) != 1:
            res.bad('C04.T12', a, g, 'the generated schedule is not taken from the result',
                    'component 1 (the schedule) of what _generate_current_schedule returns is not carried on')
            return
        S = ss[0]
        F = '%s[3]' % R
        r3 = ast.Subscript(value=ast.Name(id=R, ctx=ast.Load()), slice=ast.Constant(value=3), ctx=ast.Load())
        FINS = {F, canon.c(r3, afr), ProvCanon(repo).p(r3, afr)} | set(comp(3))
        SS = {S, '%s[1]' % R}
    loops = [l for l in enclosing_loops(a, g) if isinstance(l, ast.While)]
    if not loops:
        res.bad('C04.T12', a, g, 'schedule generated outside a loop', 'the schedule is generated once, not every timestep')
        return
    lp = loops[-1]
    ga = bound_args(repo, 'Scheduler._generate_current_schedule', g.value, afr)
    ok = True
    why = ''
    if canon.c(ga.get('schedule'), afr) != S:
        ok, why = False, ('the schedule handed to _generate_current_schedule is %s, not the one carried over from the last '
                          'round (%s): proposals that could not be submitted are forgotten' % (canon.c(ga.get('schedule'), afr), S))
    # a local that starts as a copy of the verdict and is otherwise only rewritten under `if <that local>:`
    # (verdict AND something more) can be true only when the verdict was: it speaks for it
    from ..index import guard_stack as _gs
    FINS = set(FINS)
    for n_ in list(walk_no_nested(lp)):
        if isinstance(n_, ast.Assign) and len(n_.targets) == 1 and isinstance(n_.targets[0], ast.Name) \
                and isinstance(n_.value, ast.Name) and n_.value.id in FINS:
            x_ = n_.targets[0].id
            others = [m_ for m_ in walk_no_nested(a.node) if isinstance(m_, (ast.Assign, ast.AugAssign, ast.AnnAssign)) and m_ is not n_
                      and any(isinstance(y, ast.Name) and y.id == x_ and isinstance(y.ctx, ast.Store) for y in ast.walk(m_))]
            if all(any(g_[0] == 'if' and isinstance(g_[1], ast.Name) and g_[1].id == x_ and g_[2] is True
                       for g_ in (_gs(a.node, m_) or [])) for m_ in others):
                FINS.add(x_)
    t = lp.test
    tn, tp = t, True
    while isinstance(tn, ast.UnaryOp) and isinstance(tn.op, ast.Not):
        tn, tp = tn.operand, not tp
    if not (is_const_true(t) or (canon.c(tn, afr) in FINS and tp is False)):
        ok, why = False, 'the allocation loop runs while `%s`, not until the workflow is reported finished' % short(ast.unparse(t))
    n_leave = n_sub = 0
    for seg, how in iteration_segments(a, lp):
        if how == 'raise':
            continue
        class _P:
            events = seg
        must = path_must(logic, _P)
        fin = any(Lit('truthy(%s)' % x, True) in must for x in FINS)
        if not any(e.kind == 'stmt' and any(x is g.value for x in ast.walk(e.node)) for e in seg):
            ok, why = False, 'a round of the allocation loop does not ask the algorithm for a schedule'
            continue
        if how in ('break', 'return', 'fall'):
            n_leave += 1
            if not fin:
                ok, why = False, ('the allocation loop is left on a path that has not established that the workflow is finished: '
                                  'the remaining tasks are never allocated')
            continue
        calls = [x for e in seg if e.kind == 'stmt' for x in ast.walk(e.node)
                 if isinstance(x, ast.Call) and call_name(x) == '_process_current_schedule']
        empty = any(Lit('truthy(%s)' % x, False) in must or Lit('empty(%s)' % x, True) in must for x in SS)
        if fin or empty:
            continue
        if not calls:
            ok, why = False, ('a round with a non-empty schedule does not submit it (_process_current_schedule is not called): '
                              'no task is ever started')
            continue
        n_sub += 1
        pa = bound_args(repo, 'Scheduler._process_current_schedule', calls[0], afr)
        stored = [e.node for e in seg if e.kind == 'stmt' and isinstance(e.node, ast.Assign) and e.node.value is calls[0]]
        if not (pa.get('schedule') is not None and isinstance(pa['schedule'], ast.Name) and pa['schedule'].id == S):
            ok, why = False, 'the schedule submitted is not the one just generated'
        elif not stored or not (isinstance(stored[0].targets[0], ast.Tuple) and stored[0].targets[0].elts and isinstance(
                stored[0].targets[0].elts[0], ast.Name) and stored[0].targets[0].elts[0].id == S):
            ok, why = False, ('what _process_current_schedule hands back is not carried into the next round: submitted '
                              'proposals are offered again')
    if ok and not n_sub:
        ok, why = False, 'no round submits a schedule'
    (res.ok if ok else res.bad)('C04.T12', a, lp, 'allocation rounds: generate -> submit -> carry over; leave only when finished',
                                '%d submitting round path(s), %d leaving path(s)' % (n_sub, n_leave) if ok else why)


def status_writes(repo):
    out = []
    for f in repo.all_functions():
        if f.module.name.startswith(('topsim.utils', 'topsim.recipes')):
            continue
        for n in walk_no_nested(f.node):
            if isinstance(n, ast.Assign):
                for t in n.targets:
                    if isinstance(t, ast.Attribute) and t.attr == 'task_status':
                        out.append((f, n, t))
    return out


def t2(repo, res, canon, pc, logic):
    ws = status_writes(repo)
    us = None
    for f, n, t in ws:
        fr = Frame(f)
        val = canon.c(n.value, fr)
        what = '`%s` in %s' % (short(ast.unparse(n), 50), f.qual)
        if not val.startswith('TaskStatus.'):
            res.bad('C04.T2', f, n, what, 'task status set to %s' % val)
            continue
        st = val.split('.', 1)[1]
        if st == 'UNSCHEDULED':
            ok = f.qual == 'Task.__init__'
            (res.ok if ok else res.bad)('C04.T2', f, n, what, 'initial state' if ok else
                                        'a task is reset to UNSCHEDULED: it will be submitted and executed again')
        elif st == 'FINISHED':
            ok = True
            for p in cached_paths(f):
                for i, e in enumerate(p.events):
                    if e.node is n:
                        must = path_must(logic, p, i)
                        if not any(l.pol and l.atom.endswith('.triggered)') for l in must):
                            ok = False
            (res.ok if ok else res.bad)('C04.T2', f, n, what, 'under <handle>.triggered' if ok else
                                        'FINISHED is written without the completion test: the task leaves the plan '
                                        'before (or without) having executed')
        elif st == 'RUNNING':
            ok = f.qual == 'Task.do_work'
            (res.ok if ok else res.bad)('C04.T2', f, n, what, 'ok' if ok else 'RUNNING written outside do_work')
        elif st == 'SCHEDULED':
            ok = f.qual in ('Cluster.allocate_task_to_cluster', 'Cluster._generate_ingest_tasks',
                            'Scheduler._process_current_schedule')
            (res.ok if ok else res.bad)('C04.T2', f, n, what, 'ok' if ok else 'SCHEDULED written in an unexpected place')
        else:
            res.bad('C04.T2', f, n, what, 'unknown task status %s' % st)
    # ---- submission leaves UNSCHEDULED in the submitting block (disjunctive) ----
    s = repo.func('Scheduler._process_current_schedule')
    sfr = Frame(s)
    spaths = cached_paths(s)
    res.analysed(s, len(spaths))
    spawns = [n for n in walk_no_nested(s.node) if is_spawn(n) and call_name(n.args[0]) == 'allocate_task_to_cluster']
    if not spawns:
        res.bad('C04.T2', s, None, 'no submission', 'the scheduler submits nothing')
        return
    sp = spawns[0]
    a = bound_args(repo, 'Cluster.allocate_task_to_cluster', sp.args[0], sfr)
    T = canon.c(a['task'], sfr)
    M = canon.c(a['machine'], sfr)
    sched_side = True
    for p in spaths:
        for i, e in enumerate(p.events):
            if stmt_contains(e, lambda x: x is sp):
                later = False
                for x in p.events[i:]:
                    if x.kind in ('back', 'exit'):
                        break
                    for ef in effects_of_event(canon, x):
                        if ef.loc == '%s.task_status' % T and ef.arg == 'TaskStatus.SCHEDULED':
                            later = True
                if not later:
                    sched_side = False
    alloc = repo.func('Cluster.allocate_task_to_cluster')
    callee_side = True
    n_first = 0
    for u in CU.dedupe(CU.units(repo)):
        if u.func is alloc and u.world.get('ingest') is False and u.kind == 'entry' and not CU.raises(u):
            if not any(is_spawn(x) for e in u.events if e.kind == 'stmt' for x in ast.walk(e.node)):
                continue
            n_first += 1
            if not any(ef.loc == '%s.task_status' % alloc.params[1] and ef.arg in (
                    'TaskStatus.SCHEDULED', 'TaskStatus.RUNNING') for ef in u.all_effects()):
                callee_side = False
    callee_side = callee_side and n_first > 0
    what = 'a submitted task leaves UNSCHEDULED inside the submitting block'
    if sched_side or callee_side:
        res.ok('C04.T2', s, sp, what, 'scheduler writes SCHEDULED after the spawn: %s; cluster first segment does: %s' % (
            sched_side, callee_side))
    else:
        res.bad('C04.T2', s, sp, what, 'neither the scheduler nor the first segment of the allocation marks the task '
                'SCHEDULED: the algorithm sees it UNSCHEDULED next round and it is submitted (executed) twice')
    # ---- stale proposals refused (disjunctive) ----------------------------------
    guard = True
    for p in spaths:
        for i, e in enumerate(p.events):
            if stmt_contains(e, lambda x: x is sp):
                must = path_must(logic, p, i)
                if Lit('TaskStatus.UNSCHEDULED == %s.task_status' % T, True) not in must:
                    guard = False
                if Lit('TaskStatus.UNSCHEDULED == %s.task_status' % T, False) in must:
                    res.bad('C04.T2', s, sp, 'only tasks that are NOT unscheduled reach the cluster',
                            'the submission is reached only on paths where the task is known not to be UNSCHEDULED (the guard '
                            'is inverted): every valid proposal raises, nothing ever runs')
    algs_ok = True
    from .c03 import ALGS, store_sites
    for q in ALGS:
        g = repo.func(q)
        gfr = Frame(g)
        for site in store_sites(repo, g) or []:
            node, key = site[1], site[2]
            if key is None:
                algs_ok = False
                continue
            K = canon.c(key, gfr)
            for p in cached_paths(g):
                for i, e in enumerate(p.events):
                    if stmt_contains(e, lambda x: x is node):
                        must = path_must(logic, p, i)
                        if Lit('TaskStatus.UNSCHEDULED == %s.task_status' % K, True) not in must:
                            algs_ok = False
    what = 'a proposal for a task that is not UNSCHEDULED is refused or never produced'
    if guard or algs_ok:
        res.ok('C04.T2', s, sp, what, 'scheduler guard: %s; all shipped algorithms test it: %s' % (guard, algs_ok))
    else:
        res.bad('C04.T2', s, sp, what, 'the scheduler no longer rejects proposals for already scheduled tasks and not '
                'every algorithm tests it: a task can be submitted twice')
    # ---- a proposal that is not submitted this round is handed back (not dropped) ------
    res.rule('C04.T8', 'every proposal of a round is either submitted or still in the schedule the function returns')
    sched = s.params[1]
    rets = [n for n in walk_no_nested(s.node) if isinstance(n, ast.Return) and n.value is not None]
    okk = bool(rets)
    why = 'the scheduler returns no remaining schedule'
    loops_ = [l for l in enclosing_loops(s, sp) if isinstance(l, ast.For)]
    for r in rets:
        first = r.value.elts[0] if isinstance(r.value, ast.Tuple) and r.value.elts else r.value
        R = canon.c(first, sfr)
        if not loops_:
            okk, why = False, 'allocations are not made in a loop over the schedule'
            break
        for seg, how in iteration_segments(s, loops_[-1]):
            if how == 'raise':
                continue
            spawned = any(stmt_contains(e, lambda x: x is sp) for e in seg)
            effs = path_effects(canon, seg)
            if R == sched:
                removed = [ef for ef in effs if ef.loc == sched and ef.kind in ('pop', 'del', 'clear', 'popitem')]
                if removed and not spawned:
                    okk, why = False, ('a proposal is removed from the schedule (`%s`) on a path that does not submit it: '
                                       'the task is never executed' % short(ast.unparse(removed[0].node)))
                if spawned and how == 'back' and not [ef for ef in removed if ef.arg in (T, None) or ef.kind == 'clear']:
                    okk, why = False, ('a proposal that was submitted stays in the schedule handed back: the schedule never '
                                       'becomes empty, so the workflow is never closed (and the stale proposal is offered again '
                                       'when its machine is free: RuntimeError)')
            elif spawned and how == 'back':
                kept_sub = [ef for ef in effs if ef.loc == R and ef.kind == 'store' and ef.arg == T]
                if kept_sub:
                    okk, why = False, ('a proposal that was submitted is put into the schedule handed back (%s): the schedule '
                                       'never becomes empty and the workflow is never closed' % R)
            if R != sched:
                kept = [ef for ef in effs if ef.loc == R and ef.kind == 'store' and ef.arg == T]
                if not spawned and how == 'back' and not kept:
                    okk, why = False, ('the schedule handed back (%s) does not receive a proposal that was not submitted this '
                                       'round (a skipped duplicate or busy machine): an algorithm that relies on the carried-over '
                                       'schedule never sees the task again and it never executes' % R)
    (res.ok if okk else res.bad)('C04.T8', s, rets[0] if rets else None,
                                 'unsubmitted proposals stay in the returned schedule', 'ok' if okk else why)
    # ---- duplicates in one round are skipped (not crashed on) --------------------
    ok_dup = True
    L = None
    for p in spaths:
        for i, e in enumerate(p.events):
            if stmt_contains(e, lambda x: x is sp):
                must = path_must(logic, p, i, depth=1)
                found = False
                # the machine itself or its unique id (Machine equality is by id) may be what is recorded
                for K in (M, '%s.id' % M):
                    locs = [l.atom.split(' in ', 1)[1] for l in must if not l.pol and l.atom.startswith(K + ' in ')
                            and not l.atom.split(' in ', 1)[1].startswith('Cluster.')]
                    for cand in locs:
                        app = False
                        for x in p.events[i:]:
                            if x.kind in ('back', 'exit'):
                                break
                            for ef in effects_of_event(canon, x):
                                if ef.kind in ('append', 'add') and ef.loc == cand and ef.arg == K:
                                    app = True
                        if app:
                            found, L = True, cand
                if not found:
                    ok_dup = False
    what = 'a machine proposed twice in one round is skipped by the per-round list (same expression tested and recorded)'
    (res.ok if ok_dup else res.bad)('C04.T2', s, sp, what, 'list %s' % L if ok_dup else
                                    'the per-round duplicate guard does not test the expression it records (%s): a machine '
                                    'proposed for two ready tasks reaches the cluster, which raises and aborts the run instead '
                                    'of the second task simply waiting' % M)


def t3(repo, res, canon, pc, logic):
    f = repo.func('Scheduler._update_current_plan')
    fr = Frame(f)
    res.analysed(f, len(cached_paths(f)))
    plogic = Logic(pc)
    rets = [n for n in walk_no_nested(f.node) if isinstance(n, ast.Return) and n.value is not None]
    ok = bool(rets)
    why = '_update_current_plan returns nothing'
    for r in rets:
        parts = pc.seq_parts(r.value, fr)
        if parts is None:
            ok, why = False, 'the remaining-task list is not built as "the tasks of the plan that ..." (%s)' % short(pc.p(r.value, fr))
            continue
        elt, it, conds, lvars = parts
        src = pc.p(it, fr)
        E = pc.p(elt, fr)
        if src != '%s.tasks' % f.params[1]:
            ok, why = False, 'the remaining tasks are taken from %s, not from the plan\'s task list' % short(src)
        elif E != 'elem(%s)' % src:
            ok, why = False, 'the remaining-task list holds %s, not the tasks themselves' % short(E)
        else:
            lits = set()
            for c_, pol in conds:
                lits |= plogic.must(c_, fr, pol)
            want = Lit('TaskStatus.FINISHED == %s.task_status' % E, False)
            # (the condition must be EQUIVALENT to "not FINISHED": every way of satisfying it, spelled out,
            #  is exactly that literal -- a further disjunctive condition hides from the must-set)
            alts = [set()]
            for c_, pol in conds:
                d_ = plogic.dnf(c_, fr, pol) or [[]]
                alts = [a | set(b) for a in alts for b in d_]
            extra = [a for a in alts if a != {want}]
            if lits == {want} and extra:
                lits = extra[0]
            if lits != {want}:
                ok, why = False, ('a task is kept in the plan under %s, not exactly when it is not FINISHED: finished '
                                  'tasks stay (re-offered) or unfinished tasks are dropped (never executed)' % (
                                      sorted(map(repr, lits)) or 'no condition'))
    (res.ok if ok else res.bad)('C04.T3', f, rets[0] if rets else None,
                                '_update_current_plan keeps exactly the tasks that are not FINISHED', 'ok' if ok else why)
    a = repo.func('Scheduler.allocate_tasks')
    afr = Frame(a)
    upd = [n for n in walk_no_nested(a.node) if isinstance(n, ast.Assign) and isinstance(n.value, ast.Call)
           and call_name(n.value) == '_update_current_plan']
    oku = bool(upd) and all(canon.c(n.targets[0], afr).endswith('.tasks') and enclosing_loops(a, n) for n in upd)
    (res.ok if oku else res.bad)('C04.T3', a, upd[0] if upd else None, 'the shrunk list becomes plan.tasks every allocation round',
                                 'ok' if oku else 'the result of _update_current_plan is not stored back into the plan each round')
    res.analysed(a, len(cached_paths(a)))
    # closing branch
    g = repo.func('Scheduler._generate_current_schedule')
    gfr = Frame(g)
    gp = cached_paths(g)
    if not any(ef.loc == QUEUE and ef.kind == 'remove' for p in gp for _e, _efs in effects_along(canon, p.events) for ef in _efs):
        # the closing block is not in _generate_current_schedule: it may have moved to the caller, on the
        # other side of the call -- the same analysis is made on allocate_tasks with the call inlined
        from ..normalize import merged_caller
        from ..index import FuncInfo
        mnode = merged_caller(a.cls.node, 'allocate_tasks', '_generate_current_schedule', Canon.NO_INLINE)
        if mnode is not None:
            g = FuncInfo(a.module, a.cls, mnode)
            g.inlined = False
            gfr = Frame(g)
            gp = cached_paths(g)
    res.analysed(g, len(gp))
    ok = True
    why = ''
    n_close = 0
    rel_ok = True
    for p in gp:
        closes = [(i, ef) for i, (e, _efs) in enumerate(effects_along(canon, p.events)) for ef in _efs
                  if ef.loc == QUEUE and ef.kind == 'remove']
        marks = [i for i, e in enumerate(p.events) if stmt_contains(
            e, lambda x: isinstance(x, ast.Call) and call_name(x) == 'mark_observation_finished')]
        for i, ef in closes:
            n_close += 1
            must = path_must(logic, p, i, depth=0)
            atoms = {(l.atom, l.pol) for l in must}
            empty_sched = any((re.fullmatch(r'truthy\(schedule(__n\d+)?\)', a_) and not pol_) or (
                re.fullmatch(r'empty\(schedule(__n\d+)?\)', a_) and pol_) for a_, pol_ in atoms)
            fin = any(pol and 'WorkflowStatus.FINISHED ==' in a for a, pol in atoms)
            if not (empty_sched and fin):
                ok, why = False, ('the workflow is closed (queue.remove) on a path that has not established '
                                  '"nothing left to allocate and status FINISHED"')
            # ... and the path that closes the workflow tells its caller so (the allocation loop
            # ends only on that verdict)
            from ..skel import _track_consts, _subst
            cenv = {}
            verdict = None
            for x in p.events:
                if x.kind == 'stmt' and isinstance(x.node, (ast.Assign, ast.AugAssign, ast.AnnAssign)):
                    _track_consts(x.node, cenv)
                if x.kind == 'stmt' and isinstance(x.node, ast.Return) and isinstance(x.node.value, ast.Tuple) \
                        and len(x.node.value.elts) == 4:
                    verdict = _subst(x.node.value.elts[3], cenv)
            if verdict is not None and isinstance(verdict, ast.Constant) and verdict.value is not True:
                ok, why = False, ('the path that closes the workflow returns finished=%r: the allocation loop never learns that '
                                  'the workflow is done and spins for ever' % verdict.value)
            rels = [x for x in p.events[:i] if stmt_contains(
                x, lambda y: isinstance(y, ast.Call) and call_name(y) == 'release_batch_resources'
                and y.args and pc.p(y.args[0], gfr) in ['%s.name' % g.params[1]] + (
                    ['%s.id' % g.params[2]] if len(g.params) > 2 else ['current_plan.id']))]
            if not rels:
                rel_ok = False
        if marks and not closes:
            # freed in the buffer but never leaves the queue: only allowed when mark returned False
            must = path_must(logic, p, depth=0)
            if any(l.pol and 'mark_observation_finished' in l.atom for l in must):
                ok, why = False, 'the buffer is told the observation is finished but it stays queued'
    (res.ok if ok and n_close else res.bad)('C04.T3', g, None, 'workflow closed only on (not schedule and status is FINISHED)',
                                            'ok' if ok and n_close else why or 'the scheduler never closes a workflow')
    (res.ok if rel_ok and n_close else res.bad)(
        'C04.T7', g, None, 'closing branch releases release_batch_resources(observation.name)',
        'ok' if rel_ok and n_close else 'the scheduler closes a workflow without releasing the reservation keyed by the '
        'observation name: a user algorithm that provisions and relies on the documented clean-up leaves reservations held')
    # algorithms: FINISHED only for an empty plan
    for c in repo.subclasses('Scheduling'):
        run = c.methods.get('run')
        if run is None or len(run.params) < 6:
            continue
        rfr = Frame(run)
        okf = True
        nfin = 0
        for n in walk_no_nested(run.node):
            if isinstance(n, ast.Assign) and canon.c(n.value, rfr) == 'WorkflowStatus.FINISHED':
                nfin += 1
                for p in cached_paths(run):
                    for i, e in enumerate(p.events):
                        if e.node is n:
                            must = path_must(logic, p, i)
                            plan = run.params[3]
                            if Lit('empty(%s.tasks)' % plan, True) not in must and \
                                    Lit('truthy(%s.tasks)' % plan, False) not in must:
                                okf = False
        (res.ok if okf and nfin else res.bad)('C04.T3', run, None, '%s reports FINISHED only for an empty plan' % c.name,
                                              'ok' if okf and nfin else '%s can report the workflow FINISHED while tasks '
                                              'remain (or never reports it)' % c.name)
        res.analysed(run, 0)


def t4(repo, res, canon):
    f = repo.func('Simulation.start')
    fr = Frame(f)
    res.analysed(f, len(cached_paths(f)))
    loops = [n for n in walk_no_nested(f.node) if isinstance(n, ast.While)]
    ok = False
    why = 'no run-to-completion loop in start'
    for lp in loops:
        t = lp.test
        if isinstance(t, ast.UnaryOp) and isinstance(t.op, ast.Not) and isinstance(t.operand, ast.Call) and \
                call_name(t.operand) == 'is_finished':
            ok = True
            if any(isinstance(x, (ast.Break, ast.Return)) for s in lp.body for x in ast.walk(s)):
                ok, why = False, 'the run-to-completion loop has another exit than is_finished()'
            runs = [x for s in lp.body for x in ast.walk(s) if isinstance(x, ast.Call) and call_name(x) == 'run']
            until = None
            if len(runs) == 1:
                until = runs[0].args[0] if runs[0].args else next(
                    (k.value for k in runs[0].keywords if k.arg == 'until'), None)
            if until is None or ProvCanon(repo).p(until, fr) not in (
                    '(Simulation.env.now + 1)', '(1 + Simulation.env.now)'):
                ok, why = False, 'the loop does not advance the clock by exactly one step between checks'
        elif ok is False:
            why = 'the loop condition is `%s`, not `not self.is_finished()`' % short(ast.unparse(t))
    (res.ok if ok else res.bad)('C04.T4', f, loops[0] if loops else None,
                                'start() returns from the open-ended run only when is_finished()', 'ok' if ok else why)
    # ... and the open-ended call (runtime <= 0) is the one that takes that loop
    if ok and len(f.params) > 1:
        logic = Logic(canon)
        rt = f.params[1]
        okp, n_open = True, 0
        for p in cached_paths(f):
            if p.exit == 'raise':
                continue
            must = path_must(logic, p, depth=0)
            bounded = Lit('%s <= 0' % rt, False) in must
            if bounded:
                continue
            n_open += 1
            fin = None
            for e in p.events:
                if e.kind == 'test':
                    tn, tp = e.node, e.pol
                    while isinstance(tn, ast.UnaryOp) and isinstance(tn.op, ast.Not):
                        tn, tp = tn.operand, not tp
                    if isinstance(tn, ast.Call) and call_name(tn) == 'is_finished':
                        fin = tp
            if fin is not True:
                okp = False
        (res.ok if okp and n_open else res.bad)(
            'C04.T4', f, None, 'every return of the open-ended call (runtime <= 0) has seen is_finished()',
            '%d open-ended path(s)' % n_open if okp and n_open else
            'start() can return from an open-ended call (runtime <= 0) without having seen is_finished(): the run is cut short '
            '(or env.run is given a non-positive bound and raises)')


def t10(repo, res, logic):
    """a stored observation is offered to the scheduler exactly when the hot tier is not over its
    tiering threshold: no further condition can keep it waiting (it would never be processed)"""
    from ..skel import outcomes
    res.rule('C04.T10', 'Buffer.has_observations_ready_for_processing is true exactly under: stored observations '
                        'and not over the data threshold')
    f = repo.func('Buffer.has_observations_ready_for_processing')
    outs = outcomes(logic, f, depth=0)
    res.analysed(f, len(outs))
    allowed = (r'truthy\(HotBuffer\.has_stored_observations\(\)\)',
               r'(?:exists \$1 in Buffer\.hot: )?not truthy\(Buffer\.check_buffer_over_data_threshold\((?:\$1|\w+)\)\)')
    n_t = 0
    bad = None
    for o in outs:
        if o.result != 'T':
            continue
        n_t += 1
        lits = {repr(l) for l in o.lits}
        extra = [l for l in lits if not any(re.fullmatch(a, l) for a in allowed)]
        need = [a for a in allowed if not any(re.fullmatch(a, l) for l in lits)]
        if extra or need:
            bad = (o, extra, need)
    if n_t and bad is None:
        res.ok('C04.T10', f, None, 'ready <=> stored and not over threshold', '%d true outcome(s)' % n_t)
    elif not n_t:
        res.bad('C04.T10', f, None, 'never true', 'has_observations_ready_for_processing can never be true: nothing is processed')
    else:
        o, extra, need = bad
        res.bad('C04.T10', f, None, 'ready under %s' % short(' & '.join(sorted(map(repr, o.lits))), 90),
                'a stored observation is offered for processing only if additionally %s%s: an observation for which that '
                'never holds is never processed, although the run ends "normally"' % (
                    short(', '.join(extra) or '-', 120), ('; missing: %s' % need) if need else ''), path=o.path.describe())


def t6(repo, res, canon, pc):
    f = repo.func('Cluster.finished_task_time_data')
    fr = Frame(f)
    res.analysed(f, 1)
    loops = [n for n in walk_no_nested(f.node) if isinstance(n, ast.For)]
    ok = False
    why = 'no loop over the finished table'
    if loops:
        lp = loops[0]
        src = pc.p(lp.iter, fr)
        tv = lp.target.id if isinstance(lp.target, ast.Name) else '?'
        ok = src == CU.FINISHED
        why = 'the task table is built from %s' % src
        if ok:
            for seg, how in iteration_segments(f, lp):
                stores = [ef for ef in path_effects(canon, seg) if ef.kind == 'store' and ef.arg == '%s.id' % tv]
                if how != 'back' or len(stores) != 1:
                    ok, why = False, 'a finished task can be left out of (or entered twice into) the task table'
    if not ok:
        # any other spelling: the dictionary handed to the data frame is {t.id: ... for t in finished}
        for n in walk_no_nested(f.node):
            if isinstance(n, ast.Call) and call_name(n) == 'DataFrame' and n.args:
                P = pc.p(n.args[0], fr)
                if re.fullmatch(r'map\[elem\(%s\)\.id: .* for %s\]' % (re.escape(CU.FINISHED), re.escape(CU.FINISHED)), P) \
                        and ' if ' not in P.rsplit(' for ', 1)[1]:
                    ok = True
    (res.ok if ok else res.bad)('C04.T6', f, loops[0] if loops else None, 'one task-table entry per key of tasks.finished',
                                'ok' if ok else why)
