"""./check <Cnn> [--tier quick|thorough] [--repo PATH]

exit 0: all rules hold (known findings are printed as KNOWN-FINDING)
exit 1: VIOLATION property=<id> replay=<path>
exit 2: ANALYSIS-ERROR (anchor vanished, syntax error, internal error)
"""
import argparse
import importlib
import os
import sys
import time
import traceback

from .index import AnalysisError, Repo
from .report import Result, finish


def main(argv=None):
    ap = argparse.ArgumentParser()
    ap.add_argument('prop')
    ap.add_argument('--tier', default=os.environ.get('VERIF_TIER', 'quick'))
    ap.add_argument('--repo', default=os.environ.get('VERIF_REPO', '/repo'))
    ap.add_argument('--explain')
    ap.add_argument('--no-evidence', action='store_true')
    args = ap.parse_args(argv)
    tier = args.tier if args.tier in ('quick', 'thorough') else 'quick'
    seed = int(os.environ.get('VERIF_SEED', '0') or 0)
    t0 = time.time()
    prop = args.prop.upper()
    try:
        mod = importlib.import_module('sa.props.' + prop.lower())
    except ImportError as e:
        print('ANALYSIS-ERROR property=%s no checker: %s' % (prop, e))
        return 2
    try:
        repo = Repo(args.repo)
        res = Result(prop)
        if getattr(repo, 'lifted', None):
            res.note('recorded methods that became module-level functions, judged as the methods they were: %s' % ', '.join(
                '%s (now %s())' % (o, n) for n, o in sorted(repo.lifted.items())))
        if getattr(repo, 'renamed', None):
            res.note('renamed methods judged under their recorded names: %s' % ', '.join(
                '%s (now %s)' % (o, n) for n, o in sorted(repo.renamed.items())))
        try:
            mod.check(repo, res, tier)
        except AnalysisError as e:
            # a rule lost its anchor part-way: if other rules have already reported new violations,
            # those explain the change and are the verdict; otherwise the run has no verdict (exit 2)
            from .report import load_known, norm_construct
            known_, _ = load_known()
            if not [f for f in res.findings if norm_construct(f.key) not in known_]:
                raise
            res.note('analysis stopped early (%s); the violations found up to that point are reported' % e)
        floors = getattr(mod, 'FLOORS', {})
        counts = {}
        for i in res.instances:
            counts[i.rule] = counts.get(i.rule, 0) + 1
        for rule, n in floors.items():
            # a reported violation explains missing instances (rules stop early)
            if counts.get(rule, 0) < n and not res.findings:
                raise AnalysisError(
                    'rule %s matched %d construct(s), fewer than the %d confirmed by hand; '
                    'the anchor moved and the rule table must be reviewed' % (
                        rule, counts.get(rule, 0), n))
        if tier == 'thorough' and hasattr(mod, 'thorough'):
            mod.thorough(repo, res)
        if tier == 'thorough' and not os.environ.get('SA_NO_SELFTEST'):
            from . import selftest
            st = selftest.run(prop, args.repo)
            res.extra['selftest'] = st
            t = st['tally']
            print('SELFTEST %s: %s' % (prop, ', '.join('%s=%d' % kv for kv in sorted(t.items()))))
        if args.no_evidence:
            from .report import load_known, norm_construct
            known, _ = load_known()
            new = [f for f in res.findings if norm_construct(f.key) not in known]
            for f in new:
                print('VIOLATION property=%s replay=-' % prop)
                print('  rule %s at %s in %s: %s' % (f.rule, f.where, f.func, f.message))
            return 1 if new else 0
        return finish(res, tier, seed, t0, repo)
    except AnalysisError as e:
        print('ANALYSIS-ERROR property=%s %s' % (prop, e))
        return 2
    except Exception as e:   # a crash is never a verdict
        traceback.print_exc()
        print('ANALYSIS-ERROR property=%s internal error: %r' % (prop, e))
        return 2


if __name__ == '__main__':
    sys.exit(main())
