"""Rename detection for today's anchor methods.

Rules name some functions of the pinned tree (`Cluster._set_machine_available`, ...).  A pure
*rename* of such a method must not stop a check, so the names of the pinned tree are kept in
`anchors.json` (class -> method -> [parameter count, callers]); when a recorded method is
missing from its class and exactly one *new* method of that class has the same number of
parameters and is called from one of the recorded callers (or both have none), the new name is
mapped back to the recorded one in the syntax trees before anything else looks at them.  The
report says so.  Anything more than a rename (inlined, merged, split) is not guessed at."""
import ast
import json
import os
from pathlib import Path

TABLE = Path(__file__).resolve().parent / 'anchors.json'


def _methods(tree):
    out = {}
    for n in tree.body:
        if isinstance(n, ast.ClassDef):
            out[n.name] = {b.name: b for b in n.body if isinstance(b, (ast.FunctionDef, ast.AsyncFunctionDef))}
    return out


def _attr_calls(fn):
    return {x.func.attr for x in ast.walk(fn) if isinstance(x, ast.Call) and isinstance(x.func, ast.Attribute)}


def snapshot(trees):
    """table of the given module trees: class -> method -> [n params, sorted callers (Class.method)]"""
    classes = {}
    for t in trees:
        for cn, ms in _methods(t).items():
            classes.setdefault(cn, {}).update(ms)
    callers = {}
    for cn, ms in classes.items():
        for mn, fn in ms.items():
            for a in _attr_calls(fn):
                callers.setdefault(a, set()).add('%s.%s' % (cn, mn))
    tab = {}
    for cn, ms in classes.items():
        tab[cn] = {mn: [len(fn.args.args) + len(fn.args.kwonlyargs), sorted(callers.get(mn, ()))]
                   for mn, fn in ms.items()}
    return tab


def detect(trees):
    """{new name: recorded name} for pure renames of recorded methods (see module docstring)"""
    if not TABLE.exists():
        return {}
    old = json.loads(TABLE.read_text())
    cur = snapshot(trees)
    all_defs = {}
    for cn, ms in cur.items():
        for mn in ms:
            all_defs[mn] = all_defs.get(mn, 0) + 1
    all_attrs = set()
    for t in trees:
        for x in ast.walk(t):
            if isinstance(x, ast.Attribute):
                all_attrs.add(x.attr)
    ren = {}
    for cn, oms in old.items():
        if cn not in cur:
            continue
        cms = cur[cn]
        missing = [m for m in oms if m not in cms and not (m.startswith('__') and m.endswith('__'))]
        fresh = [m for m in cms if m not in oms]
        for m in missing:
            if m in all_defs or m in all_attrs:
                continue          # the old name still means something somewhere
            want_n, want_callers = oms[m]
            cands = []
            for n in fresh:
                if all_defs.get(n) != 1 or n in ren:
                    continue
                n_par, n_callers = cms[n]
                if n_par != want_n:
                    continue
                # the recorded callers, with names already mapped back
                if (set(n_callers) & set(want_callers)) or (not n_callers and not want_callers):
                    cands.append(n)
            if len(cands) == 1:
                ren[cands[0]] = m
    return ren


class _Back(ast.NodeTransformer):
    def __init__(self, ren):
        self.ren = ren

    def visit_FunctionDef(self, node):
        self.generic_visit(node)
        if node.name in self.ren:
            node.name = self.ren[node.name]
        return node

    def visit_Attribute(self, node):
        self.generic_visit(node)
        if node.attr in self.ren:
            node.attr = self.ren[node.attr]
        return node


def apply(trees, ren):
    if ren:
        for t in trees:
            _Back(ren).visit(t)


if __name__ == '__main__':
    import sys
    root = Path(sys.argv[1] if len(sys.argv) > 1 else '/repo')
    trees = []
    for f in sorted((root / 'topsim').rglob('*.py')):
        if '__pycache__' in f.parts:
            continue
        trees.append(ast.parse(f.read_text()))
    TABLE.write_text(json.dumps(snapshot(trees), indent=0, sort_keys=True))
    print('wrote', TABLE)
