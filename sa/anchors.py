"""Rename detection for today's anchor methods.

Rules name some functions of the pinned tree (`Cluster._set_machine_available`, ...).  A pure
*rename* of such a method must not stop a check, so the names of the pinned tree are kept in
`anchors.json` (class -> method -> [parameter count, callers]); when a recorded method is
missing from its class and exactly one *new* method of that class has the same number of
parameters and is called from one of the recorded callers (or both have none), the new name is
mapped back to the recorded one in the syntax trees before anything else looks at them.  The
report says so.  Anything more than a rename (inlined, merged, split) is not guessed at."""
import ast
import json
import os
from pathlib import Path

TABLE = Path(__file__).resolve().parent / 'anchors.json'


def _methods(tree):
    out = {}
    for n in tree.body:
        if isinstance(n, ast.ClassDef):
            out[n.name] = {b.name: b for b in n.body if isinstance(b, (ast.FunctionDef, ast.AsyncFunctionDef))}
    return out


def _attr_calls(fn):
    return {x.func.attr for x in ast.walk(fn) if isinstance(x, ast.Call) and isinstance(x.func, ast.Attribute)}


def _fingerprint(fn):
    """names a method body mentions: attributes, called names, string constants (for telling
    candidates of a rename apart)"""
    out = set()
    for x in ast.walk(fn):
        if isinstance(x, ast.Attribute):
            out.add('.' + x.attr)
        elif isinstance(x, ast.Constant) and isinstance(x.value, str) and len(x.value) < 40 and x is not getattr(
                fn.body[0], 'value', None):
            out.add(repr(x.value))
        elif isinstance(x, ast.Call) and isinstance(x.func, ast.Name):
            out.add(x.func.id + '()')
    return sorted(out)


def snapshot(trees):
    """table of the given module trees: class -> method -> [n params, sorted callers (Class.method),
    fingerprint]"""
    classes = {}
    for t in trees:
        for cn, ms in _methods(t).items():
            classes.setdefault(cn, {}).update(ms)
    callers = {}
    for cn, ms in classes.items():
        for mn, fn in ms.items():
            for a in _attr_calls(fn):
                callers.setdefault(a, set()).add('%s.%s' % (cn, mn))
    tab = {}
    for cn, ms in classes.items():
        tab[cn] = {mn: [len(fn.args.args) + len(fn.args.kwonlyargs), sorted(callers.get(mn, ())), _fingerprint(fn)]
                   for mn, fn in ms.items()}
    return tab


_REC = []


# module-level functions of the recorded tree (every other one is new: an extracted helper)
RECORDED_FUNCTIONS = {'utilisation_policy'}


def recorded_methods():
    """{class: set of method names} of the recorded tree ({} when there is no table)"""
    if not _REC:
        _REC.append({cn: set(ms) for cn, ms in json.loads(TABLE.read_text()).items()} if TABLE.exists() else {})
    return _REC[0]


def detect(trees):
    """{new name: recorded name} for pure renames of recorded methods (see module docstring).
    Repeated until nothing new is found: a renamed method whose caller was renamed too is
    recognised once the caller has been mapped back."""
    known = {}
    for _ in range(4):
        ren = _detect_once(trees, known)
        if ren == known:
            break
        known = ren
    return known


def _detect_once(trees, known):
    if not TABLE.exists():
        return {}
    old = json.loads(TABLE.read_text())
    cur = snapshot(trees)
    all_defs = {}
    for cn, ms in cur.items():
        for mn in ms:
            all_defs[mn] = all_defs.get(mn, 0) + 1
    all_attrs = set()
    for t in trees:
        for x in ast.walk(t):
            if isinstance(x, ast.Attribute):
                all_attrs.add(x.attr)
    ren = dict(known)
    per_class = {}
    for cn, oms in old.items():
        if cn not in cur:
            continue
        cms = cur[cn]
        missing = [m for m in oms if m not in cms and not (m.startswith('__') and m.endswith('__'))]
        fresh = [m for m in cms if m not in oms]
        fresh_q = {'%s.%s' % (cn, n) for n in fresh}
        taken = set()
        # best matches first: a recorded method goes to the fresh method that resembles it most
        scored = []
        for m in missing:
            want_n, want_callers, want_fp = (oms[m] + [[]])[:3]
            for n in fresh:
                n_par, n_callers, n_fp = cms[n]
                if n_par != want_n:
                    continue
                # callers, looking through methods that are themselves new (extracted blocks); a
                # caller that is a known rename counts under its recorded name
                callers = {'%s.%s' % (c.split('.', 1)[0], known.get(c.split('.', 1)[1], c.split('.', 1)[1]))
                           if '.' in c else c for c in n_callers}
                for _ in range(3):
                    for c in list(callers):
                        if c in fresh_q:
                            callers |= set(cms[c.split('.', 1)[1]][1])
                if not ((callers & set(want_callers)) or (not n_callers and not want_callers)):
                    continue
                a, b = set(want_fp), set(n_fp)
                sim = len(a & b) / float(len(a | b) or 1)
                # the names themselves are evidence too: `_load_graph_impl` for `_load_graph`
                import difflib
                mm, nn = m.strip('_'), n.strip('_')
                if mm and (mm in nn or nn in mm or difflib.SequenceMatcher(None, mm, nn).ratio() >= 0.8):
                    sim = max(sim, 0.6)
                scored.append((sim, m, n))
        # accept mutual unique best matches (a recorded method and a fresh method that are each
        # other's clearly best candidate)
        best_for_m, best_for_n = {}, {}
        for sim, m, n in scored:
            best_for_m.setdefault(m, []).append((sim, n))
            best_for_n.setdefault(n, []).append((sim, m))
        for m, lst in best_for_m.items():
            lst.sort(reverse=True)
            sim, n = lst[0]
            if sim < 0.5 or (len(lst) > 1 and lst[1][0] > sim - 0.05):
                continue
            back = sorted(best_for_n[n], reverse=True)
            if back[0][1] != m or (len(back) > 1 and back[1][0] > back[0][0] - 0.05):
                continue
            per_class.setdefault(n, {})[cn] = m
    # a new name defined in several classes (sibling implementations renamed together) is mapped back
    # only when every class that defines it agrees on the recorded name
    for n, by_cls in per_class.items():
        ms = set(by_cls.values())
        defining = [cn for cn, cms in cur.items() if n in cms]
        if len(ms) == 1 and all(cn in by_cls for cn in defining if cn in old):
            ren[n] = next(iter(ms))
    return ren


class _Back(ast.NodeTransformer):
    def __init__(self, ren):
        self.ren = ren

    def visit_FunctionDef(self, node):
        self.generic_visit(node)
        if node.name in self.ren:
            node.name = self.ren[node.name]
        return node

    def visit_Attribute(self, node):
        self.generic_visit(node)
        if node.attr in self.ren:
            node.attr = self.ren[node.attr]
        return node


def apply(trees, ren):
    if ren:
        for t in trees:
            _Back(ren).visit(t)


def lift_functions(trees):
    """A recorded method that left its class for a module-level function of the same body
    (`self._generate_ingest_tasks(d, o)` -> `_build_ingest_tasks(o, d)`) is put back as a method
    under its recorded name, and the calls made from methods of that class are turned back into
    method calls.  Accepted only for a unique, clearly matching new function (same fingerprint
    test as renames) that is called from a recorded caller of the method; its parameters keep
    the function's own order (calls are rewritten consistently).
    Returns {function name: 'Class.method'}."""
    if not TABLE.exists():
        return {}
    old = json.loads(TABLE.read_text())
    lifted = {}
    classes = {}
    funcs = {}
    for t in trees:
        for n in t.body:
            if isinstance(n, ast.ClassDef):
                classes.setdefault(n.name, (t, n))
            elif isinstance(n, ast.FunctionDef) and n.name not in RECORDED_FUNCTIONS:
                funcs.setdefault(n.name, []).append((t, n))
    funcs = {k: v[0] for k, v in funcs.items() if len(v) == 1}
    for cn, oms in sorted(old.items()):
        if cn not in classes:
            continue
        ctree, cnode = classes[cn]
        have = {b.name for b in cnode.body if isinstance(b, (ast.FunctionDef, ast.AsyncFunctionDef))}
        # (a method defined in a base class is not missing)
        for m in sorted(oms):
            if m in have or (m.startswith('__') and m.endswith('__')):
                continue
            if any(m in {b.name for b in c[1].body if isinstance(b, ast.FunctionDef)} for c in classes.values()):
                continue          # still defined by some class (moved within the hierarchy): not this case
            want_n, want_callers, want_fp = (oms[m] + [[]])[:3]
            scored = []
            for fname, (ft, fn) in funcs.items():
                if fname in lifted or fn.args.vararg or fn.args.kwarg:
                    continue
                npar = len(fn.args.args) + len(fn.args.kwonlyargs)
                if npar not in (want_n - 1, want_n):
                    continue
                # called by bare name from a method of the class that is (or was extracted from) a recorded caller
                callers = set()
                for b in cnode.body:
                    if isinstance(b, (ast.FunctionDef, ast.AsyncFunctionDef)) and any(
                            isinstance(x, ast.Call) and isinstance(x.func, ast.Name) and x.func.id == fname for x in ast.walk(b)):
                        callers.add('%s.%s' % (cn, b.name))
                if not callers or (want_callers and not (callers & set(want_callers))):
                    continue
                a, b_ = set(want_fp), set(_fingerprint(fn))
                sim = len(a & b_) / float(len(a | b_) or 1)
                scored.append((sim, fname, npar))
            scored.sort(reverse=True)
            if not scored or scored[0][0] < 0.6 or (len(scored) > 1 and scored[1][0] > scored[0][0] - 0.05):
                continue
            sim, fname, npar = scored[0]
            ft, fn = funcs[fname]
            import copy as _copy
            meth = _copy.deepcopy(fn)
            meth.name = m
            explicit_self = npar == want_n          # the object is handed over as the first argument
            if not explicit_self:
                used = {x.id for x in ast.walk(fn) if isinstance(x, ast.Name)} | {a_.arg for a_ in fn.args.args}
                sname = 'self' if 'self' not in used else 'self__lifted'
                meth.args.args.insert(0, ast.arg(arg=sname, annotation=None))
            ok = True
            sites = []
            for b in cnode.body:
                if not isinstance(b, (ast.FunctionDef, ast.AsyncFunctionDef)):
                    continue
                for x in ast.walk(b):
                    if isinstance(x, ast.Call) and isinstance(x.func, ast.Name) and x.func.id == fname:
                        if explicit_self and not (x.args and isinstance(x.args[0], ast.Name) and x.args[0].id == 'self'):
                            ok = False
                        if not b.args.args or b.args.args[0].arg != 'self':
                            ok = False
                        sites.append(x)
            # calls from elsewhere keep using the function (which stays where it is)
            if not ok or not sites:
                continue
            for x in sites:
                if explicit_self:
                    x.args = x.args[1:]
                x.func = ast.copy_location(ast.Attribute(value=ast.copy_location(ast.Name(id='self', ctx=ast.Load()), x.func),
                                                         attr=m, ctx=ast.Load()), x.func)
            cnode.body.append(meth)
            ast.fix_missing_locations(cnode)
            # nobody else calls the function: it IS the method now
            if not any(isinstance(x, ast.Name) and x.id == fname for t_ in trees for x in ast.walk(t_)):
                ft.body.remove(fn)
            lifted[fname] = '%s.%s' % (cn, m)
    return lifted


if __name__ == '__main__':
    import sys
    root = Path(sys.argv[1] if len(sys.argv) > 1 else '/repo')
    trees = []
    for f in sorted((root / 'topsim').rglob('*.py')):
        if '__pycache__' in f.parts:
            continue
        trees.append(ast.parse(f.read_text()))
    TABLE.write_text(json.dumps(snapshot(trees), indent=0, sort_keys=True))
    print('wrote', TABLE)
