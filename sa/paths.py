"""E3/E5 -- syntax-directed path enumeration with optional call inlining.

A path is a list of events.  Loops are taken zero times or once; the end of an
iteration is marked by a `back` event.  A `while <constant true>` loop has no
zero-iteration path and a path reaching the end of its body ends with exit
kind 'cycle'.
"""
import ast

from .index import AnalysisError, is_spawn, walk_no_nested

MAX_PATHS = 60000


class Frame:
    """One activation of a function on a path (top level or inlined)."""
    _n = 0

    def __init__(self, func, parent=None, binding=None, call=None, spawned=False):
        self.func = func
        self.parent = parent
        self.binding = binding or {}    # param -> (expr, frame-of-expr)
        self.call = call
        self.spawned = spawned
        self.depth = 0 if parent is None else parent.depth + 1
        self._aliases = None

    @property
    def aliases(self):
        """single-assignment locals with a pure right-hand side"""
        if self._aliases is None:
            self._aliases = local_aliases(self.func)
        return self._aliases

    def __repr__(self):
        return '<Frame %s d%d>' % (self.func.qual, self.depth)


class Ev:
    __slots__ = ('kind', 'node', 'frame', 'pol', 'extra')

    def __init__(self, kind, node, frame, pol=None, extra=None):
        self.kind = kind      # stmt test for for0 back exit enter leave except
        self.node = node
        self.frame = frame
        self.pol = pol
        self.extra = extra

    def __repr__(self):
        if self.kind == 'test':
            return '<test %s %s>' % (self.pol, ast.unparse(self.node)[:50])
        if self.kind == 'exit':
            return '<exit %s>' % self.extra
        if self.kind in ('enter', 'leave'):
            return '<%s %s>' % (self.kind, self.frame.func.qual)
        if self.node is not None and self.kind == 'stmt':
            return '<stmt %s>' % ast.unparse(self.node)[:50].replace('\n', ' ')
        return '<%s>' % self.kind

    @property
    def line(self):
        return getattr(self.node, 'lineno', 0)


class Path:
    def __init__(self, events, exit_kind):
        self.events = events
        self.exit = exit_kind   # return raise fall cycle

    def __iter__(self):
        return iter(self.events)

    def __len__(self):
        return len(self.events)

    def describe(self, limit=40):
        out = []
        for e in self.events:
            if e.kind == 'test':
                out.append('%s:%d %s is %s' % (
                    e.frame.func.qual, e.line,
                    ast.unparse(e.node).replace('\n', ' ')[:70], e.pol))
            elif e.kind == 'exit':
                out.append('exit:%s@%s' % (e.extra, e.line))
            elif e.kind in ('for', 'for0', 'back'):
                out.append('%s@%d' % (e.kind, e.line))
        return out[:limit]


def is_const_true(test):
    return isinstance(test, ast.Constant) and bool(test.value) is True


def _seq(stmts, frame, budget):
    results = [((), 'N')]
    for s in stmts:
        new = []
        for ev, out in results:
            if out != 'N':
                new.append((ev, out))
                continue
            for ev2, out2 in _stmt(s, frame, budget):
                new.append((ev + ev2, out2))
        results = new
        budget[0] = max(budget[0], len(results))
        if len(results) > MAX_PATHS:
            raise AnalysisError('path explosion in %s' % frame.func.qual)
    return results


def _test_alts(test, frame, want, s):
    """Ways for `test` to come out `want`, as tuples of atom-level test events in evaluation
    order (short-circuit: `A and B` is false through [A false] or [A true, B false])."""
    if isinstance(test, ast.BoolOp):
        conj = isinstance(test.op, ast.And)
        if want == conj:
            # every operand evaluated, all with the same outcome
            alts = [()]
            for v in test.values:
                alts = [a + b for a in alts for b in _test_alts(v, frame, want, s)]
            return alts
        out = []
        prefix = [()]
        for v in test.values:
            for b in _test_alts(v, frame, want, s):
                out += [a + b for a in prefix]
            prefix = [a + b for a in prefix for b in _test_alts(v, frame, not want, s)]
        return out
    if isinstance(test, ast.UnaryOp) and isinstance(test.op, ast.Not) and isinstance(
            test.operand, (ast.BoolOp, ast.IfExp)):
        return _test_alts(test.operand, frame, not want, s)
    if isinstance(test, ast.IfExp):
        out = []
        for c in _test_alts(test.test, frame, True, s):
            out += [c + b for b in _test_alts(test.body, frame, want, s)]
        for c in _test_alts(test.test, frame, False, s):
            out += [c + b for b in _test_alts(test.orelse, frame, want, s)]
        return out
    if isinstance(test, ast.Constant):
        return [()] if bool(test.value) == want else []
    return [(Ev('test', test, frame, want, s),)]


def _stmt(s, frame, budget):
    if isinstance(s, ast.If):
        out = []
        for ev, o in _seq(s.body, frame, budget):
            for t in _test_alts(s.test, frame, True, s):
                out.append((t + ev, o))
        for ev, o in _seq(s.orelse, frame, budget):
            for t in _test_alts(s.test, frame, False, s):
                out.append((t + ev, o))
        return out
    if isinstance(s, ast.While):
        out = []
        const = is_const_true(s.test)
        t_true = () if const else (Ev('test', s.test, frame, True, s),)
        t_false = (Ev('test', s.test, frame, False, s),)
        if not const:
            for ev, o in _seq(s.orelse, frame, budget):
                out.append((t_false + ev, o))
        head = (Ev('loop', s, frame),)
        for ev, o in _seq(s.body, frame, budget):
            if o in ('N', 'continue'):
                back = (Ev('back', s, frame),)
                if const:
                    out.append((head + t_true + ev + back, 'C'))
                else:
                    # cycle path (for loop-yield rules) and the exit continuation
                    for ev2, o2 in _seq(s.orelse, frame, budget):
                        out.append((head + t_true + ev + back + t_false + ev2, o2))
            elif o == 'break':
                out.append((head + t_true + ev, 'N'))
            else:
                out.append((head + t_true + ev, o))
        return out
    if isinstance(s, (ast.For, ast.AsyncFor)):
        out = []
        for ev, o in _seq(s.orelse, frame, budget):
            out.append(((Ev('for0', s, frame),) + ev, o))
        head = (Ev('for', s, frame),)
        for ev, o in _seq(s.body, frame, budget):
            if o in ('N', 'continue'):
                back = (Ev('back', s, frame),)
                for ev2, o2 in _seq(s.orelse, frame, budget):
                    out.append((head + ev + back + ev2, o2))
            elif o == 'break':
                out.append((head + ev, 'N'))
            else:
                out.append((head + ev, o))
        return out
    if isinstance(s, ast.Try) or s.__class__.__name__ == 'TryStar':
        out = []
        fin = _seq(s.finalbody, frame, budget) if s.finalbody else [((), 'N')]

        def with_final(ev, o):
            res = []
            for fe, fo in fin:
                res.append((ev + fe, o if fo == 'N' else fo))
            return res
        for ev, o in _seq(s.body, frame, budget):
            if o == 'N':
                for ev2, o2 in _seq(s.orelse, frame, budget):
                    out += with_final(ev + ev2, o2)
            else:
                out += with_final(ev, o)
        for h in s.handlers:
            for ev, o in _seq(h.body, frame, budget):
                out += with_final((Ev('except', h, frame),) + ev, o)
        return out
    if isinstance(s, (ast.With, ast.AsyncWith)):
        out = []
        for ev, o in _seq(s.body, frame, budget):
            out.append(((Ev('stmt', s, frame, extra='with'),) + ev, o))
        return out
    if isinstance(s, ast.Return):
        return [((Ev('stmt', s, frame), Ev('exit', s, frame, extra='return')), 'R')]
    if isinstance(s, ast.Raise):
        return [((Ev('stmt', s, frame), Ev('exit', s, frame, extra='raise')), 'X')]
    if isinstance(s, ast.Break):
        return [((), 'break')]
    if isinstance(s, ast.Continue):
        return [((), 'continue')]
    if isinstance(s, (ast.FunctionDef, ast.AsyncFunctionDef, ast.ClassDef)):
        return [((), 'N')]
    return [((Ev('stmt', s, frame),), 'N')]


_EXIT = {'R': 'return', 'X': 'raise', 'C': 'cycle', 'N': 'fall'}


_EMPTY_CTORS = {'list', 'dict', 'set', 'tuple'}
_GROW = {'append', 'insert', 'add', 'appendleft'}
_MAYGROW = {'extend', 'update', 'setdefault'}
_SHRINK = {'pop', 'remove', 'clear', 'discard', 'popitem', 'popleft'}


def _touch(env, key, attr):
    """state of a tracked container after <name>.<attr>(...)"""
    st = env.get(key)
    if attr in _GROW:
        env[key] = ('nonempty',)
    elif attr in _MAYGROW:
        if st is not None and st[0] == 'empty':
            env.pop(key, None)
    elif attr in _SHRINK:
        if st is not None and st[0] == 'nonempty':
            env.pop(key, None)


_READ_ONLY = {'len', 'sorted', 'list', 'tuple', 'set', 'frozenset', 'sum', 'min', 'max', 'any', 'all', 'str',
              'repr', 'bool', 'enumerate', 'zip', 'iter', 'reversed', 'print', 'isinstance', 'id', 'type', 'dict',
              'int', 'float', 'abs', 'round'}


def _harmless_call(c):
    """calls that cannot change a container passed to them"""
    f = c.func
    if isinstance(f, ast.Name):
        return f.id in _READ_ONLY
    if isinstance(f, ast.Attribute) and isinstance(f.value, ast.Name) and f.value.id.lower() in ('logger', 'log', 'logging'):
        return True
    return False


NONNULL = set()      # set by index.Repo: suffix patterns of locations that never hold None


def loc_suffix(e):
    """('key', '*') for X['key'][<anything>] -- the pattern a subscript location is filed under"""
    if isinstance(e, ast.Subscript) and isinstance(e.value, ast.Subscript) and isinstance(
            e.value.slice, ast.Constant) and isinstance(e.value.slice.value, str) \
            and not isinstance(e.slice, ast.Slice):
        return (e.value.slice.value, '*')
    return None


def never_none(v):
    if isinstance(v, (ast.List, ast.Dict, ast.Set, ast.Tuple, ast.ListComp, ast.DictComp, ast.SetComp, ast.JoinedStr)):
        return True
    if isinstance(v, ast.Constant):
        return v.value is not None
    if isinstance(v, ast.Call) and isinstance(v.func, ast.Name) and v.func.id in (
            'list', 'dict', 'set', 'tuple', 'int', 'float', 'str', 'len', 'sorted'):
        return True
    return False


def _lit_state(v):
    """('const', value) / ('empty',) / ('notnone',) for a right-hand side whose value is known, else None"""
    if loc_suffix(v) in NONNULL:
        return ('notnone', 'seen')
    if isinstance(v, ast.Constant) and isinstance(v.value, (bool, int, str, type(None))):
        return ('const', v.value, 'fresh')
    if isinstance(v, (ast.List, ast.Tuple, ast.Set)) and not v.elts:
        return ('empty', 'fresh')
    if isinstance(v, ast.Dict) and not v.keys:
        return ('empty', 'fresh')
    if isinstance(v, ast.Call) and isinstance(v.func, ast.Name) and v.func.id in _EMPTY_CTORS and not v.args \
            and not v.keywords:
        return ('empty', 'fresh')
    return None


def _truth(test, env, fid):
    """definite truth value of a test over locals with a known literal value, else None"""
    if isinstance(test, ast.UnaryOp) and isinstance(test.op, ast.Not):
        v = _truth(test.operand, env, fid)
        return None if v is None else not v
    if isinstance(test, ast.Name):
        st = env.get((fid, test.id))
        if st is None:
            return None
        if st[0] == 'nonempty':
            return True
        if st[0] == 'notnone':
            return None
        return False if st[0] == 'empty' else bool(st[1])
    if isinstance(test, ast.Call) and isinstance(test.func, ast.Name) and test.func.id in ('len', 'bool') \
            and len(test.args) == 1:
        return _truth(test.args[0], env, fid)
    if isinstance(test, ast.Compare) and len(test.ops) == 1:
        l, r, op = test.left, test.comparators[0], test.ops[0]
        for a, b, flip in ((l, r, False), (r, l, True)):
            if isinstance(a, ast.Call) and isinstance(a.func, ast.Name) and a.func.id == 'len' and len(a.args) == 1 \
                    and isinstance(a.args[0], ast.Name) and isinstance(b, ast.Constant) and isinstance(b.value, int):
                st = env.get((fid, a.args[0].id))
                if st is not None and st[0] == 'nonempty':
                    n = b.value
                    o = type(op)
                    if flip:
                        o = {ast.Lt: ast.Gt, ast.Gt: ast.Lt, ast.LtE: ast.GtE, ast.GtE: ast.LtE}.get(o, o)
                    # len >= 1
                    if n <= 0:
                        return {ast.Eq: False, ast.NotEq: True, ast.Gt: True, ast.GtE: True,
                                ast.Lt: False, ast.LtE: False}.get(o)
                    if n == 1:
                        return {ast.GtE: True, ast.Lt: False}.get(o)
                    return None
                if st is not None and st[0] == 'empty':
                    n = b.value
                    o = type(op)
                    if flip:
                        o = {ast.Lt: ast.Gt, ast.Gt: ast.Lt, ast.LtE: ast.GtE, ast.GtE: ast.LtE}.get(o, o)
                    return {ast.Eq: 0 == n, ast.NotEq: 0 != n, ast.Lt: 0 < n, ast.LtE: 0 <= n,
                            ast.Gt: 0 > n, ast.GtE: 0 >= n}.get(o)
            if isinstance(a, ast.Name) and isinstance(b, ast.Constant) and b.value is None and isinstance(
                    op, (ast.Eq, ast.NotEq, ast.Is, ast.IsNot)):
                st = env.get((fid, a.id))
                if st is not None and st[0] in ('notnone', 'empty', 'nonempty'):
                    return isinstance(op, (ast.NotEq, ast.IsNot))
            if isinstance(a, ast.Name) and isinstance(b, ast.Constant):
                st = env.get((fid, a.id))
                if st is not None and st[0] == 'const' and isinstance(op, (ast.Eq, ast.NotEq, ast.Is, ast.IsNot)):
                    same = st[1] == b.value and type(st[1]) is type(b.value)
                    return same if isinstance(op, (ast.Eq, ast.Is)) else not same
    return None


_LOOP_SUMMARY = {}
_STMT_SUMMARY = {}


def _stmt_summary(n, is_with):
    k = (id(n), is_with)
    if k in _STMT_SUMMARY:
        return _STMT_SUMMARY[k]
    touches, escapes, itemstores = [], [], []
    opaque = False
    roots = [it.context_expr for it in n.items] if is_with else [n]
    for root in roots:
        for x in ast.walk(root):
            if isinstance(x, (ast.Yield, ast.YieldFrom, ast.Await)):
                opaque = True
            elif isinstance(x, ast.Call) and not _harmless_call(x) and not (
                    isinstance(x.func, ast.Attribute) and isinstance(x.func.value, ast.Name) and (
                        x.func.attr in _GROW or x.func.attr in _MAYGROW or x.func.attr in _SHRINK)):
                opaque = True
            if isinstance(x, ast.Call) and isinstance(x.func, ast.Attribute) and isinstance(
                    x.func.value, ast.Name) and (x.func.attr in _GROW or x.func.attr in _MAYGROW or x.func.attr in _SHRINK):
                touches.append((x.func.value.id, x.func.attr))
            if isinstance(x, ast.Call) and not _harmless_call(x):
                for a in list(x.args) + [kw.value for kw in x.keywords]:
                    if isinstance(a, ast.Name):
                        escapes.append(a.id)
            elif isinstance(x, (ast.Subscript, ast.Attribute)) and isinstance(x.ctx, (ast.Store, ast.Del)) \
                    and isinstance(x.value, ast.Name):
                itemstores.append(x.value.id)
    _STMT_SUMMARY[k] = (touches, escapes, itemstores, opaque)
    return _STMT_SUMMARY[k]


def _loop_summary(n):
    """(names stored, names grown, names shrunk, names escaping into calls / item stores) in a loop"""
    k = id(n)
    if k in _LOOP_SUMMARY:
        return _LOOP_SUMMARY[k]
    stores, grow, shrink, escapes = set(), set(), set(), set()
    for x in ast.walk(n):
        if isinstance(x, ast.Name) and isinstance(x.ctx, (ast.Store, ast.Del)):
            stores.add(x.id)
        elif isinstance(x, ast.Attribute) and isinstance(x.value, ast.Name):
            if x.attr in _GROW or x.attr in _MAYGROW:
                grow.add(x.value.id)
            elif x.attr in _SHRINK:
                shrink.add(x.value.id)
        elif isinstance(x, ast.Call) and not _harmless_call(x):
            for a in list(x.args) + [kw.value for kw in x.keywords]:
                if isinstance(a, ast.Name):
                    escapes.add(a.id)
        elif isinstance(x, ast.Subscript) and isinstance(x.ctx, (ast.Store, ast.Del)) and isinstance(x.value, ast.Name):
            stores.add(x.value.id)
    _LOOP_SUMMARY[k] = (stores, grow, shrink, escapes)
    return _LOOP_SUMMARY[k]


def _learn(test, pol, env, fid):
    """state of a local implied by the outcome of a test on it (only when nothing is known yet)"""
    if isinstance(test, ast.UnaryOp) and isinstance(test.op, ast.Not):
        return _learn(test.operand, not pol, env, fid)
    if isinstance(test, ast.Name):
        if (fid, test.id) not in env:
            env[(fid, test.id)] = ('nonempty' if pol else 'empty', 'seen')
        return
    if isinstance(test, ast.Compare) and len(test.ops) == 1:
        l, r, op = test.left, test.comparators[0], type(test.ops[0])
        for a, b, flip in ((l, r, False), (r, l, True)):
            if isinstance(a, ast.Call) and isinstance(a.func, ast.Name) and a.func.id == 'len' and len(a.args) == 1 \
                    and isinstance(a.args[0], ast.Name) and isinstance(b, ast.Constant) and isinstance(b.value, int) \
                    and not isinstance(b.value, bool):
                key = (fid, a.args[0].id)
                if key in env:
                    return
                o = {ast.Lt: ast.Gt, ast.Gt: ast.Lt, ast.LtE: ast.GtE, ast.GtE: ast.LtE}.get(op, op) if flip else op
                n = b.value
                # which of  len == 0 / len >= 1  the outcome implies
                empty = None
                if (o, n) in ((ast.Eq, 0), (ast.LtE, 0), (ast.Lt, 1)):
                    empty = pol
                elif (o, n) in ((ast.NotEq, 0), (ast.Gt, 0), (ast.GtE, 1)):
                    empty = not pol
                if empty is not None:
                    env[key] = ('empty' if empty else 'nonempty', 'seen')
                return


def locally_feasible(events):
    """False when a test contradicts what is known about a local on this path: a constant, a
    fresh empty container, a container that has been appended to, or the outcome of an
    earlier test of the same local.  Locals assigned inside a loop are forgotten at the loop
    head (a path stands for any iteration); what was only observed (not created here) is
    forgotten at every call and yield, where other code may change the object."""
    env = {}
    groups = {}          # key -> set of keys naming the same object
    seen_cmp = {}        # (frame id, dump of a comparison over locals and constants) -> (outcome, names)

    def forget_name(key):
        env.pop(key, None)
        g = groups.pop(key, None)
        if g is not None:
            g.discard(key)
        for k in [k for k, v in seen_cmp.items() if k[0] == key[0] and key[1] in v[1]]:
            del seen_cmp[k]

    def forget_obj(key):
        for k in list(groups.get(key, (key,))):
            env.pop(k, None)

    for e in events:
        fid = id(e.frame)
        n = e.node
        if e.kind in ('for', 'for0', 'loop') and n is not None:
            if seen_cmp:
                stores_ = _loop_summary(n)[0]
                for k in [k for k, v in seen_cmp.items() if k[0] == fid and (v[1] & stores_)]:
                    del seen_cmp[k]
            if env:
                stores, grow, shrink, escapes = _loop_summary(n)
                for (f_, nm) in list(env):
                    if f_ != fid or (f_, nm) not in env:
                        continue
                    st = env[(f_, nm)]
                    if nm in stores:
                        forget_name((f_, nm))
                    elif (nm in escapes and st[0] in ('empty', 'nonempty')) or \
                            (st[0] == 'empty' and nm in grow) or (st[0] == 'nonempty' and nm in shrink):
                        forget_obj((f_, nm))
                # anything merely observed may be changed by the calls of the loop body
                for k in [k for k, st in env.items() if len(st) > 1 and st[-1] == 'seen']:
                    env.pop(k, None)
            continue
        if e.kind not in ('stmt', 'test') or n is None:
            continue
        touches, escapes, itemstores, opaque = _stmt_summary(n, e.extra == 'with')
        if opaque and env:
            for k in [k for k, st in env.items() if len(st) > 1 and st[-1] == 'seen']:
                env.pop(k, None)
        if e.kind == 'test':
            v = _truth(n, env, fid)
            if v is not None and v != bool(e.pol):
                return False
            # the same comparison of locals (values, not objects) made twice gives one answer
            t, pol = n, bool(e.pol)
            while isinstance(t, ast.UnaryOp) and isinstance(t.op, ast.Not):
                t, pol = t.operand, not pol
            if isinstance(t, ast.Compare) and all(isinstance(x, (ast.Name, ast.Constant, ast.Compare, ast.cmpop, ast.expr_context,
                                                                 ast.UnaryOp, ast.USub, ast.BinOp, ast.operator))
                                                  for x in ast.walk(t)) and not any(
                    isinstance(o, (ast.In, ast.NotIn, ast.Is, ast.IsNot)) for o in t.ops):
                key = (fid, ast.dump(t))
                if key in seen_cmp:
                    if seen_cmp[key][0] != pol:
                        return False
                else:
                    seen_cmp[key] = (pol, {x.id for x in ast.walk(t) if isinstance(x, ast.Name)})
        for nm, attr in touches:
            key = (fid, nm)
            st = env.get(key)
            if attr in _GROW:
                origin = st[-1] if st is not None and len(st) > 1 and st[0] in ('empty', 'nonempty') else 'seen'
                for k in list(groups.get(key, (key,))):
                    env[k] = ('nonempty', origin)
            elif attr in _MAYGROW:
                if st is not None and st[0] == 'empty':
                    forget_obj(key)
            elif attr in _SHRINK:
                if st is not None and st[0] == 'nonempty':
                    forget_obj(key)
        if env:
            for nm in escapes:
                st = env.get((fid, nm))
                if st is not None and st[0] in ('empty', 'nonempty'):
                    forget_obj((fid, nm))
            for nm in itemstores:
                forget_obj((fid, nm))
        if e.kind == 'test':
            _learn(n, bool(e.pol), env, fid)
            continue
        if e.extra == 'with':
            for it in n.items:
                if it.optional_vars is not None:
                    for x in ast.walk(it.optional_vars):
                        if isinstance(x, ast.Name):
                            forget_name((fid, x.id))
            continue
        if isinstance(n, ast.Assign):
            single = len(n.targets) == 1 and isinstance(n.targets[0], ast.Name)
            st = _lit_state(n.value) if single else None
            src = None
            if single and isinstance(n.value, ast.Name) and n.value.id != n.targets[0].id:
                src = (fid, n.value.id)
            src_state = env.get(src) if src is not None else None
            for t in n.targets:
                for x in ast.walk(t):
                    if isinstance(x, ast.Name) and isinstance(x.ctx, ast.Store):
                        forget_name((fid, x.id))
            if src is not None:
                # y = x : two names for one object
                key = (fid, n.targets[0].id)
                g = groups.get(src)
                if g is None:
                    g = groups[src] = {src}
                g.add(key)
                groups[key] = g
                if src_state is not None:
                    env[key] = src_state
            else:
                for x in _escaping(n.value):
                    if env.get((fid, x.id), ('',))[0] in ('empty', 'nonempty'):
                        forget_obj((fid, x.id))
                if st is not None:
                    env[(fid, n.targets[0].id)] = st
        elif isinstance(n, (ast.AugAssign, ast.AnnAssign)):
            if isinstance(n.target, ast.Name):
                forget_name((fid, n.target.id))
        elif isinstance(n, ast.Delete):
            for t in n.targets:
                if isinstance(t, ast.Name):
                    forget_name((fid, t.id))
    return True


def _escaping(v):
    """names whose object becomes reachable from the value built by expression v"""
    if isinstance(v, ast.Name):
        yield v
    elif isinstance(v, (ast.Tuple, ast.List, ast.Set)):
        for y in v.elts:
            yield from _escaping(y)
    elif isinstance(v, ast.Dict):
        for y in v.values:
            yield from _escaping(y)
    elif isinstance(v, ast.IfExp):
        yield from _escaping(v.body)
        yield from _escaping(v.orelse)
    elif isinstance(v, ast.BoolOp):
        for y in v.values:
            yield from _escaping(y)
    elif isinstance(v, ast.Starred):
        yield from _escaping(v.value)


def function_paths(func, frame=None):
    """All acyclic intraprocedural paths of a function (without those a literal-valued local
    makes infeasible)."""
    frame = frame or Frame(func)
    budget = [0]
    res = []
    for ev, o in _seq(func.node.body, frame, budget):
        if not locally_feasible(ev):
            continue
        ev = list(ev)
        if o == 'N':
            ev.append(Ev('exit', None, frame, extra='fall'))
        elif o == 'C':
            ev.append(Ev('exit', None, frame, extra='cycle'))
        elif o in ('break', 'continue'):
            raise AnalysisError('stray %s in %s' % (o, func.qual))
        res.append(Path(ev, _EXIT[o]))
    return res


_cache = {}


def cached_paths(func):
    k = id(func.node)
    if k not in _cache:
        _cache[k] = function_paths(func)
    return _cache[k]


# --------------------------------------------------------------------------
# local aliases (copy propagation)

def _is_pure_loc(e):
    """Name / attribute / subscript chains and constants"""
    if isinstance(e, (ast.Name, ast.Constant)):
        return True
    if isinstance(e, ast.Attribute):
        return _is_pure_loc(e.value)
    if isinstance(e, ast.Subscript):
        return _is_pure_loc(e.value) and _is_pure_loc(e.slice)
    return False


_PURE_CALLS = {'len', 'int', 'round', 'float', 'min', 'max', 'abs', 'str', 'bool'}


def _aliasable(v):
    """RHS kinds through which a single-assignment local is transparent.
    Mutable displays and general calls are NOT: `xs = []` or `xs = getter()`
    name fresh objects, whose later mutation must not look like a mutation of
    the source."""
    for n in ast.walk(v):
        if isinstance(n, (ast.List, ast.Dict, ast.Set, ast.ListComp, ast.SetComp,
                          ast.DictComp, ast.GeneratorExp, ast.Lambda, ast.Yield,
                          ast.YieldFrom, ast.Await, ast.NamedExpr, ast.JoinedStr)):
            return False
        if isinstance(n, ast.Call):
            if not (isinstance(n.func, ast.Name) and n.func.id in _PURE_CALLS):
                return False
    return True


_ASSIGNED = {}


def assigned_names(func):
    """name -> list of ast nodes that (re)bind it inside func (not nested)."""
    k = id(func.node)
    if k in _ASSIGNED and _ASSIGNED[k][0] is func.node:
        return _ASSIGNED[k][1]
    out = _assigned_names(func)
    _ASSIGNED[k] = (func.node, out)
    return out


def _assigned_names(func):
    out = {}

    def add(t, node):
        if isinstance(t, ast.Name):
            out.setdefault(t.id, []).append(node)
        elif isinstance(t, (ast.Tuple, ast.List)):
            for x in t.elts:
                add(x, node)
        elif isinstance(t, ast.Starred):
            add(t.value, node)
    for n in walk_no_nested(func.node):
        if isinstance(n, ast.Assign):
            for t in n.targets:
                add(t, n)
        elif isinstance(n, (ast.AugAssign, ast.AnnAssign)):
            add(n.target, n)
        elif isinstance(n, (ast.For, ast.AsyncFor)):
            add(n.target, n)
        elif isinstance(n, ast.comprehension):
            add(n.target, n)
        elif isinstance(n, (ast.With, ast.AsyncWith)):
            for it in n.items:
                if it.optional_vars is not None:
                    add(it.optional_vars, n)
        elif isinstance(n, ast.NamedExpr):
            add(n.target, n)
        elif isinstance(n, ast.ExceptHandler) and n.name:
            out.setdefault(n.name, []).append(n)
    return out


_ALIAS_CACHE = {}
_STALE_CACHE = {}


def stale_copy(func, name, defnode):
    """is the single-assignment local `name = ...<loc>.attr...` read after <loc>.attr has been
    written again in the same function?  Then the local holds the OLD value and is not an alias
    of the location any more (`expected = self.duration; self.duration = f(); if expected < total`).
    Decided by position: a write to the very same location text after the copy, and a read of
    the local after that write (both in source order; a write inside the same loop also counts
    for reads at the top of the loop body)."""
    ck = (id(func.node), name, id(defnode))
    if ck in _STALE_CACHE:
        return _STALE_CACHE[ck]
    _STALE_CACHE[ck] = False
    val = getattr(defnode, 'value', None)
    if not isinstance(val, ast.Attribute):
        return False          # only a plain copy of a location (a computed value keeps the older, flow-insensitive reading)
    x_ = val
    while isinstance(x_, (ast.Attribute, ast.Subscript)):
        x_ = x_.value
    if not isinstance(x_, ast.Name):
        return False
    locs = {ast.unparse(val)}
    dline = getattr(defnode, 'end_lineno', None) or defnode.lineno
    writes = []
    for n in _walk_no_nested_funcs(func.node):
        tg = []
        if isinstance(n, ast.Assign):
            tg = [y for t in n.targets for y in ([t] if not isinstance(t, (ast.Tuple, ast.List)) else t.elts)]
        elif isinstance(n, (ast.AugAssign, ast.AnnAssign)):
            tg = [n.target]
        for t in tg:
            if isinstance(t, ast.Attribute) and ast.unparse(t) in locs and n is not defnode and n.lineno > dline:
                writes.append(getattr(n, 'end_lineno', None) or n.lineno)
    if not writes:
        return False
    first = min(writes)
    for n in _walk_no_nested_funcs(func.node):
        if isinstance(n, ast.Name) and n.id == name and isinstance(n.ctx, ast.Load) and n.lineno > first:
            _STALE_CACHE[ck] = True
            return True
    return False


def _walk_no_nested_funcs(root):
    stack = list(ast.iter_child_nodes(root))
    while stack:
        n = stack.pop()
        yield n
        if isinstance(n, (ast.FunctionDef, ast.AsyncFunctionDef, ast.Lambda, ast.ClassDef)):
            continue
        stack.extend(ast.iter_child_nodes(n))


def local_aliases(func, pure_only=False):
    """Locals assigned exactly once (and not parameters) -> their RHS.

    Any expression is accepted as RHS (used for copy propagation of guards and
    arithmetic); callers that need locations check purity themselves."""
    ck = (id(func.node), pure_only)
    if ck in _ALIAS_CACHE:
        return _ALIAS_CACHE[ck]
    asg = assigned_names(func)
    params = set(func.params) | set(func.kwonly)
    out = _ALIAS_CACHE[ck] = {}
    for name, nodes in asg.items():
        if name in params or len(nodes) != 1:
            continue
        n = nodes[0]
        # a, b = x, y   (same-length tuple assignment): element-wise aliases
        if isinstance(n, ast.Assign) and len(n.targets) == 1 and isinstance(n.targets[0], (ast.Tuple, ast.List)) \
                and isinstance(n.value, (ast.Tuple, ast.List)) and len(n.value.elts) == len(n.targets[0].elts):
            for t, v in zip(n.targets[0].elts, n.value.elts):
                if isinstance(t, ast.Name) and t.id == name and _aliasable(v) and not any(
                        isinstance(x, ast.Name) and x.id == name for x in ast.walk(v)):
                    if not pure_only or _is_pure_loc(v):
                        out[name] = v
            continue
        if isinstance(n, ast.Assign) and len(n.targets) == 1 and isinstance(
                n.targets[0], ast.Name):
            if pure_only and not _is_pure_loc(n.value):
                continue
            if not _aliasable(n.value):
                continue
            # a self-referential definition is not an alias
            if any(isinstance(x, ast.Name) and x.id == name for x in ast.walk(n.value)):
                continue
            if stale_copy(func, name, n):
                continue
            out[name] = n.value
    return out


# --------------------------------------------------------------------------
# inlining

def calls_in(node):
    """ast.Call nodes inside a statement/expression in evaluation order
    (approximately: inner calls first), not descending into lambdas."""
    out = []

    def rec(n):
        for c in ast.iter_child_nodes(n):
            if isinstance(c, (ast.Lambda, ast.FunctionDef, ast.AsyncFunctionDef,
                              ast.ClassDef)):
                continue
            rec(c)
        if isinstance(n, ast.Call):
            out.append(n)
    rec(node)
    return out


def bind_args(callee, call, frame, bound_self=None):
    """param -> (expr, frame) for a call; missing params get their defaults
    (evaluated in the callee's frame, so bound to (default, None))."""
    binding = {}
    params = list(callee.params)
    if callee.cls is not None and params and not any(
            d == 'staticmethod' for d in callee.decorators):
        p0 = params.pop(0)
        if isinstance(call.func, ast.Attribute):
            binding[p0] = (call.func.value, frame)
        elif bound_self is not None:
            binding[p0] = bound_self
    for i, a in enumerate(call.args):
        if isinstance(a, ast.Starred):
            break
        if i < len(params):
            binding[params[i]] = (a, frame)
    for kw in call.keywords:
        if kw.arg:
            binding[kw.arg] = (kw.value, frame)
    for p, d in callee.defaults.items():
        if p not in binding:
            binding[p] = (d, None)
    return binding


def expand(repo, path, depth, want=None, _budget=None):
    """Inline resolved topsim callees into a path, to `depth` levels.

    `want(callee, call, spawned)` selects what to inline (default: every
    uniquely resolved non-generator call, and spawns of generators -- only the
    first segment of a spawned generator is spliced, see E7).
    Yields Path objects (a path multiplies by the callee's path count).
    """
    if depth <= 0:
        yield path
        return
    if _budget is None:
        _budget = [0]
    # find first event with an inlinable call not yet expanded
    for i, e in enumerate(path.events):
        if e.kind not in ('stmt', 'test'):
            continue
        if e.extra == 'with':
            node = [it.context_expr for it in e.node.items]
        else:
            node = [e.node]
        for root in node:
            spawn_args = {id(n.args[0]) for n in ast.walk(root) if is_spawn(n)}
            for call in calls_in(root):
                key = (id(call), id(e.frame))
                if key in path_inlined(path):
                    continue
                cals, exact = repo.resolve_call(call, e.frame.func)
                if len(cals) != 1 or not exact:
                    continue
                cal = cals[0]
                spawned = id(call) in spawn_args
                if cal.name == '__init__':
                    continue
                if cal.is_generator and not spawned:
                    continue
                if e.frame.depth >= depth:
                    continue
                # recursion guard
                fr = e.frame
                rec = False
                while fr is not None:
                    if fr.func is cal:
                        rec = True
                        break
                    fr = fr.parent
                if rec:
                    continue
                if want is not None and not want(cal, call, spawned):
                    continue
                sub = Frame(cal, e.frame, bind_args(cal, call, e.frame), call, spawned)
                cps = function_paths(cal, sub)
                for cp in cps:
                    evs = cp.events
                    if spawned:
                        evs = first_segment(evs)
                    ret = None
                    for x in evs:
                        if x.kind == 'exit' and x.extra == 'return' and x.node is not None:
                            ret = x.node.value
                    mid = [Ev('enter', call, sub)] + [
                        x for x in evs if x.kind != 'exit'] + [
                        Ev('leave', call, sub, extra=(cp.exit if not spawned else 'segment', ret))]
                    if cp.exit == 'raise' and not spawned:
                        # exception propagates: path ends here
                        newp = Path(path.events[:i] + mid + [
                            Ev('exit', evs[-1].node if evs else None, sub, extra='raise')], 'raise')
                    else:
                        newp = Path(path.events[:i] + mid + path.events[i:], path.exit)
                    newp._inlined = set(path_inlined(path)) | {key}
                    newp._rets = dict(getattr(path, '_rets', {}))
                    newp._rets[key] = (ret, sub, cp.exit)
                    _budget[0] += 1
                    if _budget[0] > MAX_PATHS:
                        raise AnalysisError('inlining explosion at %s' % cal.qual)
                    yield from expand(repo, newp, depth, want, _budget)
                return
    yield path


def path_inlined(path):
    return getattr(path, '_inlined', set())


def first_segment(events):
    """Events of a generator path up to and including its first yield."""
    out = []
    for x in events:
        out.append(x)
        if x.kind == 'stmt' and contains_yield(x.node):
            break
    return out


def contains_yield(node):
    if node is None:
        return False
    if isinstance(node, (ast.With, ast.AsyncWith)):
        return any(contains_yield(it.context_expr) for it in node.items)
    for n in ast.walk(node):
        if isinstance(n, (ast.Yield, ast.YieldFrom)):
            return True
    return False


def expanded_paths(repo, func, depth=2, want=None):
    out = []
    for p in cached_paths(func):
        for q in expand(repo, p, depth, want):
            out.append(q)
            if len(out) > MAX_PATHS:
                raise AnalysisError('inlining explosion in %s' % func.qual)
    return out


def feasible(path):
    """Drop paths where the caller tests an inlined call's constant result with
    the wrong polarity (`if not helper(...)` with helper returning True)."""
    rets = getattr(path, '_rets', {})
    if not rets:
        return True
    for e in path.events:
        if e.kind != 'test':
            continue
        node, pol = e.node, e.pol
        while isinstance(node, ast.UnaryOp) and isinstance(node.op, ast.Not):
            node, pol = node.operand, not pol
        if isinstance(node, ast.Call):
            r = rets.get((id(node), id(e.frame)))
            if r and isinstance(r[0], ast.Constant) and isinstance(r[0].value, bool):
                if r[0].value != pol:
                    return False
    return True


def const_value(node, frame, _d=0):
    """Constant truth value of a test expression whose names are bound (through
    the frame chain) to constants; None when unknown."""
    if _d > 10:
        return None
    if isinstance(node, ast.Constant):
        return bool(node.value)
    if isinstance(node, ast.UnaryOp) and isinstance(node.op, ast.Not):
        v = const_value(node.operand, frame, _d + 1)
        return None if v is None else not v
    if isinstance(node, ast.Name) and frame is not None and node.id in frame.binding:
        ex, fr = frame.binding[node.id]
        if isinstance(ex, ast.Constant):
            return bool(ex.value)
        if fr is not None:
            return const_value(ex, fr, _d + 1)
        return None
    if isinstance(node, ast.BoolOp):
        vals = [const_value(v, frame, _d + 1) for v in node.values]
        if isinstance(node.op, ast.And):
            if any(v is False for v in vals):
                return False
            if all(v is True for v in vals):
                return True
        else:
            if any(v is True for v in vals):
                return True
            if all(v is False for v in vals):
                return False
    return None


def feasible_consts(path):
    for e in path.events:
        if e.kind == 'test':
            v = const_value(e.node, e.frame)
            if v is not None and v != e.pol:
                return False
    return True


def world_frame(func, consts):
    """top-level frame in which some parameters are bound to constants"""
    b = {k: (ast.Constant(value=v), None) for k, v in consts.items()}
    for p, d in func.defaults.items():
        if p not in b and isinstance(d, ast.Constant) and isinstance(d.value, (bool, str)):
            b[p] = (d, None)
    return Frame(func, None, b)


def split_segments(events):
    """cut a path's event list at top-frame yields (depth-0 stmt events that contain a yield)"""
    segs, cur = [], []
    for e in events:
        cur.append(e)
        if e.kind == 'stmt' and e.frame.depth == 0 and contains_yield(e.node):
            segs.append(cur)
            cur = []
    if cur:
        segs.append(cur)
    return segs
