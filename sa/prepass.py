"""Package-wide source normalisation that needs to see every module first (run before
normalize.py).

P1  module-level constants: `STORED = 'stored'` (bound once at module level to a literal, never
    rebound, not shadowed in the function) is replaced by the literal wherever it is read, also
    through `from <module> import STORED`.
P2  named tuples are erased: `Pair = namedtuple('Pair', 'task machine')`, `class Pair(NamedTuple)`
    and `@dataclass(frozen=True) class Pair` make `Pair(a, b)` the tuple `(a, b)` and `.task` the
    subscript `[0]`.  A field access is rewritten when the field name cannot mean anything else
    (no class of the package stores or defines an attribute of that name), or when the object is
    known locally to be such a tuple (bound from the constructor, or iterating a list built from
    constructor calls).
P2d a `dict` subclass whose constructor only fills the mapping (`super().__init__(a=0, b=n)`): its
    constructor calls become the dict display itself (the methods stay; they are new methods and
    are judged where they are called, with `self[...]` standing for the mapping).
All are the identity on the pinned tree (it has none of these)."""
import ast
import copy


# ------------------------------------------------------------------------------- P1
def _module_constants(tree):
    stores = {}
    for n in ast.walk(tree):
        if isinstance(n, ast.Name) and isinstance(n.ctx, (ast.Store, ast.Del)):
            stores[n.id] = stores.get(n.id, 0) + 1
        elif isinstance(n, ast.Global):
            for x in n.names:
                stores[x] = stores.get(x, 0) + 5
    out = {}
    for st in tree.body:
        tgt = val = None
        if isinstance(st, ast.Assign) and len(st.targets) == 1 and isinstance(st.targets[0], ast.Name):
            tgt, val = st.targets[0].id, st.value
        elif isinstance(st, ast.AnnAssign) and isinstance(st.target, ast.Name) and st.value is not None:
            tgt, val = st.target.id, st.value            # TIMESTEP: int = 1
        if tgt and isinstance(val, ast.Constant) and isinstance(val.value, (str, int, float)) \
                and not isinstance(val.value, bool) and stores.get(tgt) == 1:
            out[tgt] = val
        elif tgt and tgt.startswith('_') and stores.get(tgt) == 1 and (
                _literal_table(val) or (isinstance(val, ast.Tuple) and _immutable_literal(val))) \
                and _names_read_only(tree, tgt):
            out[tgt] = val            # a private look-up table that is only ever read (in this module)
    return out


def _names_read_only(tree, name):
    """every mention of the module-level name only reads the table (see _read_only_uses)"""
    parent = {}
    for n in ast.walk(tree):
        for c in ast.iter_child_nodes(n):
            parent[id(c)] = n
    for n in ast.walk(tree):
        if not (isinstance(n, ast.Name) and n.id == name):
            continue
        if not isinstance(n.ctx, ast.Load):
            continue          # the one defining store (counted by the caller)
        p = parent.get(id(n))
        if isinstance(p, ast.Attribute) and p.attr in _READERS and isinstance(parent.get(id(p)), ast.Call):
            continue
        if isinstance(p, ast.Subscript) and p.value is n and isinstance(p.ctx, ast.Load):
            continue
        if isinstance(p, (ast.For, ast.comprehension)) and p.iter is n:
            continue
        if isinstance(p, ast.Compare) and n in p.comparators and all(isinstance(o, (ast.In, ast.NotIn)) for o in p.ops):
            continue
        if isinstance(p, ast.Call) and n in p.args and isinstance(p.func, ast.Name) and p.func.id in _CONSUMERS:
            continue
        return False
    return True


class _ConstSubst(ast.NodeTransformer):
    def __init__(self, consts):
        self.consts = consts
        self.shadow = [set()]

    def _func(self, node):
        names = {a.arg for a in node.args.args + node.args.kwonlyargs + node.args.posonlyargs}
        if node.args.vararg:
            names.add(node.args.vararg.arg)
        if node.args.kwarg:
            names.add(node.args.kwarg.arg)
        for x in ast.walk(node):
            if isinstance(x, ast.Name) and isinstance(x.ctx, (ast.Store, ast.Del)):
                names.add(x.id)
        self.shadow.append(self.shadow[-1] | names)
        self.generic_visit(node)
        self.shadow.pop()
        return node

    visit_FunctionDef = visit_AsyncFunctionDef = visit_Lambda = _func

    def visit_Name(self, node):
        if isinstance(node.ctx, ast.Load) and node.id in self.consts and node.id not in self.shadow[-1]:
            return ast.copy_location(copy.deepcopy(self.consts[node.id]), node)
        return node


def fold_module_constants(trees_by_name):
    """trees_by_name: {dotted module name: tree}"""
    table = {name: _module_constants(t) for name, t in trees_by_name.items()}
    by_short = {}
    for name, c in table.items():
        by_short.setdefault(name.split('.')[-1], []).append(c)
    n = 0
    for name, tree in trees_by_name.items():
        consts = dict(table[name])
        for st in tree.body:
            if isinstance(st, ast.ImportFrom) and st.module:
                cands = by_short.get(st.module.split('.')[-1], [])
                if len(cands) == 1:
                    for a in st.names:
                        if a.name in cands[0]:
                            consts[a.asname or a.name] = cands[0][a.name]
        if consts:
            # do not touch the defining assignments themselves
            _ConstSubst(consts).visit(tree)
            n += len(consts)
    return n


# ------------------------------------------------------------------------------- P1c
def _immutable_literal(v):
    if isinstance(v, ast.Constant):
        return isinstance(v.value, (str, int, float, bool, type(None), bytes))
    if isinstance(v, ast.Tuple):
        return all(_immutable_literal(x) for x in v.elts)
    if isinstance(v, ast.UnaryOp) and isinstance(v.op, ast.USub):
        return _immutable_literal(v.operand)
    if isinstance(v, ast.Call) and isinstance(v.func, (ast.Name, ast.Attribute)) and (
            getattr(v.func, 'id', None) or v.func.attr) in ('itemgetter', 'attrgetter') and v.args and not v.keywords:
        return all(isinstance(x, ast.Constant) for x in v.args)        # getter objects are immutable
    if isinstance(v, ast.Call) and isinstance(v.func, ast.Name) and v.func.id == 'frozenset' and len(v.args) == 1 \
            and not v.keywords and isinstance(v.args[0], (ast.Tuple, ast.List, ast.Set)):
        return all(_immutable_literal(x) for x in v.args[0].elts)
    return False


def _literal_table(v):
    """a dict / list display of immutable literals (a look-up table)"""
    if isinstance(v, ast.Dict):
        return all(k is not None and _immutable_literal(k) for k in v.keys) and all(_immutable_literal(x) for x in v.values)
    if isinstance(v, ast.List):
        return all(_immutable_literal(x) for x in v.elts)
    return False


_READERS = {'values', 'keys', 'items', 'get', 'index', 'count', 'copy'}
_CONSUMERS = {'len', 'list', 'tuple', 'sorted', 'zip', 'enumerate', 'set', 'frozenset', 'dict', 'sum', 'min', 'max',
              'any', 'all', 'reversed', 'iter', 'itemgetter', 'chain'}


def _read_only_uses(trees, name):
    """every mention `<x>.name` in the package only reads the table: a reading method, a
    subscript load, an iteration, a membership test, an argument of a consuming builtin"""
    for t in trees:
        parent = {}
        for n in ast.walk(t):
            for c in ast.iter_child_nodes(n):
                parent[id(c)] = n
        for n in ast.walk(t):
            if not (isinstance(n, ast.Attribute) and n.attr == name):
                continue
            if not isinstance(n.ctx, ast.Load):
                return False
            p = parent.get(id(n))
            if isinstance(p, ast.Starred):
                p2 = parent.get(id(p))
                if isinstance(p2, ast.Call):
                    continue
                return False
            if isinstance(p, ast.Attribute) and p.attr in _READERS and isinstance(parent.get(id(p)), ast.Call):
                continue
            if isinstance(p, ast.Subscript) and p.value is n and isinstance(p.ctx, ast.Load):
                continue
            if isinstance(p, (ast.For, ast.comprehension)) and p.iter is n:
                continue
            if isinstance(p, ast.Compare) and n in p.comparators and all(isinstance(o, (ast.In, ast.NotIn)) for o in p.ops):
                continue
            if isinstance(p, ast.Call) and n in p.args and isinstance(p.func, ast.Name) and p.func.id in _CONSUMERS:
                continue
            return False
    return True


def fold_class_constants(trees):
    """P1c: `NAME = <immutable literal>` bound once in a plain class body (not an Enum, no
    dataclass/NamedTuple fields) and stored through no attribute anywhere is replaced by the
    literal where it is read as self.NAME / cls.NAME / type(self).NAME / Class.NAME."""
    stored = set()
    for t in trees:
        for n in ast.walk(t):
            if isinstance(n, ast.Attribute) and isinstance(n.ctx, (ast.Store, ast.Del)):
                stored.add(n.attr)
            elif isinstance(n, ast.Call) and isinstance(n.func, ast.Name) and n.func.id == 'setattr':
                return 0
    classes = {}
    for t in trees:
        for n in ast.walk(t):
            if isinstance(n, ast.ClassDef):
                classes.setdefault(n.name, n)
    consts = {}          # (class, NAME) -> literal
    by_name = {}
    for cn, c in classes.items():
        bases = [b.id if isinstance(b, ast.Name) else getattr(b, 'attr', '?') for b in c.bases]
        if any(b not in classes and b not in ('object', 'ABC') for b in bases) or c.decorator_list:
            continue       # Enum members, NamedTuple / dataclass fields are not plain constants
        cnt = {}
        for b in c.body:
            for x in ast.walk(b) if not isinstance(b, (ast.FunctionDef, ast.AsyncFunctionDef, ast.ClassDef)) else []:
                if isinstance(x, ast.Name) and isinstance(x.ctx, ast.Store):
                    cnt[x.id] = cnt.get(x.id, 0) + 1
        for b in c.body:
            tgt = val = None
            if isinstance(b, ast.Assign) and len(b.targets) == 1 and isinstance(b.targets[0], ast.Name):
                tgt, val = b.targets[0].id, b.value
            elif isinstance(b, ast.AnnAssign) and isinstance(b.target, ast.Name) and b.value is not None:
                tgt, val = b.target.id, b.value
            if tgt and cnt.get(tgt) == 1 and tgt not in stored and (
                    _immutable_literal(val) or (_literal_table(val) and _read_only_uses(trees, tgt))):
                consts[(cn, tgt)] = val
                by_name.setdefault(tgt, []).append(cn)
            elif tgt and cnt.get(tgt) == 1 and tgt not in stored and isinstance(val, ast.Dict) and val.keys and all(
                    k is not None and _immutable_literal(k) for k in val.keys) and _read_only_uses(trees, tgt):
                # a dispatch table of the class's own functions: {'normal': _sample_normal, ...} (names of
                # functions defined in this class body) -- its values are read as Class.<function>
                own = {f_.name for f_ in c.body if isinstance(f_, ast.FunctionDef) and not f_.decorator_list}
                if all(isinstance(v_, ast.Name) and v_.id in own for v_ in val.values):
                    consts[(cn, tgt)] = ast.Dict(keys=[copy.deepcopy(k) for k in val.keys], values=[
                        ast.Attribute(value=ast.Name(id=cn, ctx=ast.Load()), attr=v_.id, ctx=ast.Load()) for v_ in val.values])
                    by_name.setdefault(tgt, []).append(cn)
    if not consts:
        return 0
    n = [0]

    class Sub(ast.NodeTransformer):
        def __init__(self):
            self.cls = [None]

        def visit_ClassDef(self, node):
            self.cls.append(node.name)
            self.generic_visit(node)
            self.cls.pop()
            return node

        def visit_Attribute(self, node):
            self.generic_visit(node)
            if not isinstance(node.ctx, ast.Load):
                return node
            b = node.value
            owner = None
            if isinstance(b, ast.Name) and b.id in ('self', 'cls'):
                owner = self.cls[-1]
            elif isinstance(b, ast.Call) and isinstance(b.func, ast.Name) and b.func.id == 'type' and len(b.args) == 1:
                owner = self.cls[-1]
            elif isinstance(b, ast.Name) and b.id in classes:
                owner = b.id
            if owner is None:
                return node
            v = consts.get((owner, node.attr))
            if v is None and len(by_name.get(node.attr, [])) == 1:
                # inherited from / defined by the only class that has it
                k = by_name[node.attr][0]
                c = classes.get(owner)
                seen = set()
                while c is not None and c.name not in seen:
                    seen.add(c.name)
                    if c.name == k:
                        v = consts[(k, node.attr)]
                        break
                    nxt = None
                    for bb in c.bases:
                        bn = bb.id if isinstance(bb, ast.Name) else getattr(bb, 'attr', None)
                        if bn in classes:
                            nxt = classes[bn]
                            break
                    c = nxt
            if v is None:
                return node
            n[0] += 1
            return ast.copy_location(copy.deepcopy(v), node)
    for t in trees:
        Sub().visit(t)
        ast.fix_missing_locations(t)
    return n[0]


# ------------------------------------------------------------------------------- P2
def _nt_decl(st):
    """(type name, [fields]) for a named-tuple declaration statement, else None"""
    if isinstance(st, ast.Assign) and len(st.targets) == 1 and isinstance(st.targets[0], ast.Name) \
            and isinstance(st.value, ast.Call):
        f = st.value.func
        nm = f.id if isinstance(f, ast.Name) else (f.attr if isinstance(f, ast.Attribute) else None)
        if nm == 'namedtuple' and len(st.value.args) >= 2:
            spec = st.value.args[1]
            if isinstance(spec, ast.Constant) and isinstance(spec.value, str):
                return st.targets[0].id, spec.value.replace(',', ' ').split()
            if isinstance(spec, (ast.List, ast.Tuple)) and all(
                    isinstance(x, ast.Constant) and isinstance(x.value, str) for x in spec.elts):
                return st.targets[0].id, [x.value for x in spec.elts]
    if isinstance(st, ast.ClassDef):
        bases = {b.id if isinstance(b, ast.Name) else getattr(b, 'attr', None) for b in st.bases}
        frozen = any(isinstance(d, ast.Call) and (getattr(d.func, 'id', None) == 'dataclass' or getattr(
            d.func, 'attr', None) == 'dataclass') and any(k.arg == 'frozen' and isinstance(
                k.value, ast.Constant) and k.value.value is True for k in d.keywords) for d in st.decorator_list)
        if 'NamedTuple' in bases or frozen:
            fields = [b.target.id for b in st.body if isinstance(b, ast.AnnAssign) and isinstance(b.target, ast.Name)]
            only_fields = all(isinstance(b, ast.AnnAssign) or (isinstance(b, ast.Expr) and isinstance(
                b.value, ast.Constant)) for b in st.body)
            if fields and only_fields:
                return st.name, fields
    return None


def erase_named_tuples(trees):
    types = {}
    for t in trees:
        for st in t.body:
            d = _nt_decl(st)
            if d:
                types[d[0]] = d[1]
    if not types:
        return 0
    # attribute names that mean something else somewhere in the package
    taken = set()
    for t in trees:
        for n in ast.walk(t):
            if isinstance(n, ast.Attribute) and isinstance(n.ctx, (ast.Store, ast.Del)):
                taken.add(n.attr)
            elif isinstance(n, ast.ClassDef) and n.name not in types:
                for b in n.body:
                    if isinstance(b, (ast.FunctionDef, ast.AsyncFunctionDef)):
                        taken.add(b.name)
                    elif isinstance(b, ast.Assign):
                        for x in b.targets:
                            if isinstance(x, ast.Name):
                                taken.add(x.id)
                    elif isinstance(b, ast.AnnAssign) and isinstance(b.target, ast.Name):
                        taken.add(b.target.id)
    # ... or is used as a method of some (possibly external) object: graph.predecessors(t)
    for t in trees:
        for n in ast.walk(t):
            if isinstance(n, ast.Call) and isinstance(n.func, ast.Attribute):
                taken.add(n.func.attr)
    index = {}
    for tn, fs in types.items():
        for i, f in enumerate(fs):
            index.setdefault(f, set()).add(i)
    free = {f: next(iter(ix)) for f, ix in index.items() if len(ix) == 1 and f not in taken}

    def ctor(call):
        fn = call.func
        nm = fn.id if isinstance(fn, ast.Name) else None
        return nm if nm in types else None

    def as_tuple(call):
        fs = types[ctor(call)]
        if any(isinstance(a, ast.Starred) for a in call.args) or any(k.arg is None for k in call.keywords):
            return None
        vals = list(call.args)
        kw = {k.arg: k.value for k in call.keywords}
        for f in fs[len(vals):]:
            if f not in kw:
                return None
            vals.append(kw[f])
        if len(vals) != len(fs):
            return None
        return ast.copy_location(ast.Tuple(elts=vals, ctx=ast.Load()), call)

    # functions all of whose returns build one record type: their result is such a record
    returns_type = {}
    seen_names = {}
    for t in trees:
        for fn in ast.walk(t):
            if isinstance(fn, (ast.FunctionDef, ast.AsyncFunctionDef)):
                seen_names[fn.name] = seen_names.get(fn.name, 0) + 1
                rts = set()
                for r in ast.walk(fn):
                    if isinstance(r, ast.Return):
                        v = r.value
                        vs = [v.body, v.orelse] if isinstance(v, ast.IfExp) else [v]
                        for x in vs:
                            rts.add(ctor(x) if isinstance(x, ast.Call) else None)
                if len(rts) == 1 and None not in rts:
                    returns_type[fn.name] = next(iter(rts))
    returns_type = {k: v for k, v in returns_type.items() if seen_names.get(k) == 1}

    class Erase(ast.NodeTransformer):
        def __init__(self):
            self.local = [{}]      # name -> type name, per function

        def _func(self, node):
            env = {}
            lists = {}
            for n in ast.walk(node):
                if isinstance(n, ast.Assign) and len(n.targets) == 1 and isinstance(n.targets[0], ast.Name):
                    v = n.value
                    if isinstance(v, ast.Call) and ctor(v):
                        env[n.targets[0].id] = ctor(v)
                    elif isinstance(v, ast.Call) and (
                            v.func.attr if isinstance(v.func, ast.Attribute) else getattr(v.func, 'id', None)) in returns_type:
                        env[n.targets[0].id] = returns_type[
                            v.func.attr if isinstance(v.func, ast.Attribute) else v.func.id]
                    elif isinstance(v, (ast.ListComp, ast.GeneratorExp)) and isinstance(v.elt, ast.Call) and ctor(v.elt):
                        lists[n.targets[0].id] = ctor(v.elt)
                    elif isinstance(v, (ast.List, ast.Tuple)) and v.elts and all(
                            isinstance(x, ast.Call) and ctor(x) for x in v.elts):
                        lists[n.targets[0].id] = ctor(v.elts[0])
                elif isinstance(n, ast.Call) and isinstance(n.func, ast.Attribute) and n.func.attr == 'append' \
                        and isinstance(n.func.value, ast.Name) and n.args and isinstance(n.args[0], ast.Call) \
                        and ctor(n.args[0]):
                    lists[n.func.value.id] = ctor(n.args[0])
            for n in ast.walk(node):
                gens = []
                if isinstance(n, (ast.For, ast.AsyncFor)):
                    gens = [(n.target, n.iter)]
                elif isinstance(n, (ast.ListComp, ast.GeneratorExp, ast.SetComp, ast.DictComp)):
                    gens = [(g.target, g.iter) for g in n.generators]
                for tg, it in gens:
                    if isinstance(tg, ast.Name):
                        if isinstance(it, ast.Name) and it.id in lists:
                            env[tg.id] = lists[it.id]
                        elif isinstance(it, (ast.ListComp, ast.GeneratorExp)) and isinstance(
                                it.elt, ast.Call) and ctor(it.elt):
                            env[tg.id] = ctor(it.elt)
            self.local.append(env)
            self.generic_visit(node)
            self.local.pop()
            return node

        visit_FunctionDef = visit_AsyncFunctionDef = _func

        def visit_Call(self, node):
            # <record>._asdict() : the dict display of its fields (judged before the record's
            # constructor call is erased)
            if isinstance(node.func, ast.Attribute) and node.func.attr == '_asdict' and not node.args and not node.keywords:
                v = node.func.value
                tn = None
                if isinstance(v, ast.Name) and v.id in self.local[-1]:
                    tn = self.local[-1][v.id]
                elif isinstance(v, ast.Call) and ctor(v):
                    tn = ctor(v)
                if tn is not None:
                    v2 = self.visit(v)
                    fs = types[tn]
                    if isinstance(v2, ast.Tuple) and len(v2.elts) == len(fs):
                        vals = list(v2.elts)
                    else:
                        vals = [ast.Subscript(value=copy.deepcopy(v2), slice=ast.Constant(value=i), ctx=ast.Load())
                                for i in range(len(fs))]
                    d = ast.Dict(keys=[ast.Constant(value=f) for f in fs], values=vals)
                    return ast.fix_missing_locations(ast.copy_location(d, node))
            self.generic_visit(node)
            if ctor(node):
                t = as_tuple(node)
                if t is not None:
                    return t
            # dict(<dict display>) is that display
            if isinstance(node.func, ast.Name) and node.func.id == 'dict' and len(node.args) == 1 and not node.keywords \
                    and isinstance(node.args[0], ast.Dict):
                return node.args[0]
            return node

        def visit_Attribute(self, node):
            self.generic_visit(node)
            if not isinstance(node.ctx, ast.Load):
                return node
            i = None
            if isinstance(node.value, ast.Name) and node.value.id in self.local[-1]:
                fs = types[self.local[-1][node.value.id]]
                if node.attr in fs:
                    i = fs.index(node.attr)
            if i is None and node.attr in free:
                i = free[node.attr]
            if i is None:
                return node
            return ast.copy_location(ast.Subscript(value=node.value, slice=ast.Constant(value=i), ctx=ast.Load()), node)

    for t in trees:
        Erase().visit(t)
        ast.fix_missing_locations(t)
    return len(types)


# ------------------------------------------------------------------------------- P2d
def erase_dict_ctors(trees):
    """`class Ledger(dict): def __init__(self, n): super().__init__(free=n, busy=0)` makes
    `Ledger(k)` the display `{'free': k, 'busy': 0}`.  Returns the number of calls rewritten."""
    ctors = {}
    for t in trees:
        for c in t.body:
            if not (isinstance(c, ast.ClassDef) and len(c.bases) == 1 and isinstance(c.bases[0], ast.Name)
                    and c.bases[0].id == 'dict' and not c.keywords):
                continue
            init = [b for b in c.body if isinstance(b, ast.FunctionDef) and b.name == '__init__']
            if len(init) != 1:
                continue
            fn = init[0]
            a = fn.args
            if a.vararg or a.kwarg or a.posonlyargs or a.kwonlyargs or not a.args:
                continue
            body = [st for st in fn.body if not (isinstance(st, ast.Expr) and isinstance(st.value, ast.Constant))]
            if len(body) != 1 or not isinstance(body[0], ast.Expr) or not isinstance(body[0].value, ast.Call):
                continue
            call = body[0].value
            f_ = call.func
            args = list(call.args)
            if isinstance(f_, ast.Attribute) and f_.attr == '__init__' and isinstance(f_.value, ast.Call) \
                    and isinstance(f_.value.func, ast.Name) and f_.value.func.id == 'super':
                pass
            elif isinstance(f_, ast.Attribute) and f_.attr == '__init__' and isinstance(f_.value, ast.Name) \
                    and f_.value.id == 'dict' and args and isinstance(args[0], ast.Name) and args[0].id == a.args[0].arg:
                args = args[1:]
            else:
                continue
            keys, vals = [], []
            if len(args) == 1 and isinstance(args[0], ast.Dict) and all(k is not None for k in args[0].keys):
                keys, vals = list(args[0].keys), list(args[0].values)
            elif args:
                continue
            if any(k.arg is None for k in call.keywords):
                continue
            for k in call.keywords:
                keys.append(ast.Constant(value=k.arg))
                vals.append(k.value)
            if not keys:
                continue
            params = [x.arg for x in a.args[1:]]
            defaults = dict(zip(params[len(params) - len(a.defaults):], a.defaults))
            ctors[c.name] = (params, defaults, keys, vals)
    if not ctors:
        return 0
    n = [0]

    class Subst(ast.NodeTransformer):
        def __init__(self, env):
            self.env = env

        def visit_Name(self, node):
            if isinstance(node.ctx, ast.Load) and node.id in self.env:
                return copy.deepcopy(self.env[node.id])
            return node

        def visit_Lambda(self, node):
            return node

    class Erase(ast.NodeTransformer):
        def visit_Call(self, node):
            self.generic_visit(node)
            if not (isinstance(node.func, ast.Name) and node.func.id in ctors):
                return node
            params, defaults, keys, vals = ctors[node.func.id]
            if any(isinstance(x, ast.Starred) for x in node.args) or any(k.arg is None for k in node.keywords) \
                    or len(node.args) > len(params):
                return node
            env = dict(zip(params, node.args))
            for k in node.keywords:
                if k.arg not in params or k.arg in env:
                    return node
                env[k.arg] = k.value
            for p_ in params:
                if p_ not in env:
                    if p_ not in defaults:
                        return node
                    env[p_] = defaults[p_]
            d = ast.Dict(keys=[copy.deepcopy(k) for k in keys],
                         values=[Subst(env).visit(copy.deepcopy(v)) for v in vals])
            n[0] += 1
            return ast.fix_missing_locations(ast.copy_location(d, node))
    for t in trees:
        Erase().visit(t)
    return n[0]
