"""E7 -- SimPy process-order model, derived from the source on every run.

witness(): parses the installed simpy and confirms the scheduling facts the
order rules rely on.  registration_order(): the order in which
Simulation.start registers the actor loops.  roots(): which actor loop(s) a
function executes under (through calls and spawns).
"""
import ast
import glob
import os

from .index import AnalysisError, is_spawn, walk_no_nested
from .norm import Canon
from .paths import Frame


def _find_simpy():
    cands = sorted(glob.glob('/venv/lib/python3*/site-packages/simpy')) + \
        sorted(glob.glob('/usr/lib/python3*/site-packages/simpy')) + \
        sorted(glob.glob('/usr/local/lib/python3*/site-packages/simpy'))
    for c in cands:
        if os.path.isfile(os.path.join(c, 'events.py')) and os.path.isfile(os.path.join(c, 'core.py')):
            return c
    return None


def witness():
    """dict of facts; raises AnalysisError when the installed SimPy contradicts
    the model.  When SimPy cannot be found the facts are returned as assumed."""
    d = _find_simpy()
    if d is None:
        return {'simpy': 'not found; ordering facts ASSUMED'}
    ev = ast.parse(open(os.path.join(d, 'events.py')).read())
    co = ast.parse(open(os.path.join(d, 'core.py')).read())
    prio = {}
    for n in ev.body:
        tgt = None
        if isinstance(n, ast.AnnAssign) and isinstance(n.target, ast.Name):
            tgt, val = n.target.id, n.value
        elif isinstance(n, ast.Assign) and isinstance(n.targets[0], ast.Name):
            tgt, val = n.targets[0].id, n.value
        if tgt in ('URGENT', 'NORMAL'):
            while isinstance(val, ast.Call) and val.args:
                val = val.args[0]
            if isinstance(val, ast.Constant):
                prio[tgt] = val.value
    if not ('URGENT' in prio and 'NORMAL' in prio and prio['URGENT'] < prio['NORMAL']):
        raise AnalysisError('SimPy witness: URGENT < NORMAL not confirmed (%r)' % prio)
    sched = {}
    for n in ev.body:
        if isinstance(n, ast.ClassDef) and n.name in ('Timeout', 'Initialize', 'Interruption'):
            for c in ast.walk(n):
                if isinstance(c, ast.Call) and isinstance(c.func, ast.Attribute) and \
                        c.func.attr == 'schedule' and len(c.args) >= 2 and isinstance(c.args[1], ast.Name):
                    sched[n.name] = c.args[1].id
    want = {'Timeout': 'NORMAL', 'Initialize': 'URGENT', 'Interruption': 'URGENT'}
    if sched != want:
        raise AnalysisError('SimPy witness: event priorities are %r, model needs %r' % (sched, want))
    tup = None
    for n in ast.walk(co):
        if isinstance(n, ast.Call) and isinstance(n.func, ast.Name) and n.func.id == 'heappush' \
                and len(n.args) == 2 and isinstance(n.args[1], ast.Tuple):
            tup = [ast.unparse(x) for x in n.args[1].elts]
    if not tup or len(tup) != 4 or 'priority' not in tup[1] or 'next(self._eid)' not in tup[2]:
        raise AnalysisError('SimPy witness: queue key is %r, expected (time, priority, next(eid), event)' % tup)
    return {'simpy': d, 'URGENT<NORMAL': True, 'schedules': sched, 'queue_key': tup}


ACTOR_ATTRS = ('monitor', 'instrument', 'cluster', 'scheduler', 'buffer')


def registration_order(repo):
    """[(actor class name, spawn node)] in the order Simulation.start registers them."""
    canon = Canon(repo)
    f = repo.func('Simulation.start')
    fr = Frame(f)
    out = []
    # statement order of the function body (top level, not nested in branches counts too)
    for n in _ordered_calls(f.node):
        if is_spawn(n):
            inner = n.args[0]
            if isinstance(inner.func, ast.Attribute) and inner.func.attr == 'run':
                cn = canon.c(inner.func.value, fr)
                out.append((cn, n))
    return out


def _ordered_calls(fn):
    out = []

    def rec(n):
        for c in ast.iter_child_nodes(n):
            if isinstance(c, (ast.FunctionDef, ast.AsyncFunctionDef, ast.Lambda, ast.ClassDef)):
                continue
            rec(c)
        if isinstance(n, ast.Call):
            out.append(n)
    for s in fn.body:
        rec(s)
    out.sort(key=lambda c: (c.lineno, c.col_offset))
    return out


class Roots:
    """which actor loop(s) a function runs under"""

    def __init__(self, repo):
        self.repo = repo
        self.canon = Canon(repo)
        self.order = [cn for cn, _ in registration_order(repo)]
        self.actor_runs = {}
        for cn in self.order:
            c = None
            for k in repo.classes.values():
                if self.canon.class_name(k.name) == cn and 'run' in k.methods and \
                        k.module.name.startswith('topsim'):
                    # prefer concrete classes
                    if c is None or k.is_subclass_of(c.name):
                        c = k
            if c is not None:
                self.actor_runs[c.methods['run'].qual] = cn
        self._callers = None
        self._memo = {}

    def index(self, actor):
        return self.order.index(actor)

    def _build(self):
        callers = {}
        for f in self.repo.all_functions():
            spawn_args = {id(n.args[0]) for n in walk_no_nested(f.node) if is_spawn(n)}
            for n in walk_no_nested(f.node):
                if isinstance(n, ast.Call):
                    cals, exact = self.repo.resolve_call(n, f)
                    if not exact:
                        continue
                    for c in cals:
                        callers.setdefault(c.qual, set()).add((f.qual, id(n) in spawn_args))
        self._callers = callers

    def roots(self, qual, _seen=None):
        """set of actor class names; 'Simulation' for code run by the driver
        outside any process (start/resume/is_finished)."""
        if self._callers is None:
            self._build()
        if qual in self._memo:
            return self._memo[qual]
        seen = _seen or set()
        if qual in seen:
            return set()
        seen = seen | {qual}
        if qual in self.actor_runs:
            return {self.actor_runs[qual]}
        out = set()
        if qual.startswith('Simulation.'):
            out.add('Simulation')
        for cq, spawned in self._callers.get(qual, ()):
            if cq == 'Simulation.start' and qual in self.actor_runs:
                continue
            out |= self.roots(cq, seen)
        if _seen is None:
            self._memo[qual] = out
        return out
