"""E1/E2 -- repository index, receiver typing and call resolution.

Everything is computed from the source text under <repo>/topsim with the
stdlib `ast` module.  Nothing is imported or executed.
"""
import ast
import hashlib
import os
from pathlib import Path


class AnalysisError(Exception):
    """The analysis cannot give a verdict (anchor vanished, syntax error...).

    Reported as ANALYSIS-ERROR, exit 2 -- never a silent pass and never a
    VIOLATION line.
    """


class FuncInfo:
    def __init__(self, module, cls, node):
        self.module = module
        self.cls = cls
        self.node = node
        self.name = node.name
        self.qual = (cls.name + '.' + node.name) if cls else (
            module.short + ':' + node.name)
        a = node.args
        self.params = [x.arg for x in a.posonlyargs + a.args]
        self.kwonly = [x.arg for x in a.kwonlyargs]
        self.defaults = {}
        pos = a.posonlyargs + a.args
        for p, d in zip(pos[len(pos) - len(a.defaults):], a.defaults):
            self.defaults[p.arg] = d
        for p, d in zip(a.kwonlyargs, a.kw_defaults):
            if d is not None:
                self.defaults[p.arg] = d
        self.is_generator = _contains_yield(node)
        self.decorators = [ast.unparse(d) for d in node.decorator_list]

    @property
    def file(self):
        return self.module.rel

    def where(self, node=None):
        n = node if node is not None else self.node
        return '%s:%d' % (self.module.rel, getattr(n, 'lineno', 0))

    def __repr__(self):
        return '<Func %s>' % self.qual


class ClassInfo:
    def __init__(self, module, node):
        self.module = module
        self.node = node
        self.name = node.name
        self.base_names = []
        for b in node.bases:
            if isinstance(b, ast.Name):
                self.base_names.append(b.id)
            elif isinstance(b, ast.Attribute):
                self.base_names.append(b.attr)
        self.methods = {}
        self.mro = [self]

    def find_method(self, name):
        for c in self.mro:
            if name in c.methods:
                return c.methods[name]
        return None

    def is_subclass_of(self, name):
        return any(c.name == name for c in self.mro)

    def __repr__(self):
        return '<Class %s>' % self.name


class Module:
    def __init__(self, root, path):
        self.path = path
        self.rel = str(path.relative_to(root))
        self.name = self.rel[:-3].replace(os.sep, '.')
        self.short = path.stem
        src = path.read_bytes()
        self.sha256 = hashlib.sha256(src).hexdigest()
        self.source = src.decode('utf-8', 'replace')
        try:
            self.tree = ast.parse(self.source, filename=str(path))
            self.orig_tree = ast.parse(self.source, filename=str(path))
        except SyntaxError as e:
            raise AnalysisError('syntax error in %s: %s' % (self.rel, e))
        self.lines = self.source.splitlines()
        self.classes = {}
        self.functions = {}
        self.imports = {}   # local name -> dotted origin


def _contains_yield(fn):
    for n in _walk_no_nested(fn):
        if isinstance(n, (ast.Yield, ast.YieldFrom)):
            return True
    return False


def _walk_no_nested(fn):
    """Walk a function body without descending into nested defs/lambdas."""
    stack = list(fn.body) if hasattr(fn, 'body') and isinstance(
        fn.body, list) else [fn]
    while stack:
        n = stack.pop()
        if isinstance(n, (ast.FunctionDef, ast.AsyncFunctionDef, ast.Lambda, ast.ClassDef)) and n is not fn:
            continue          # a nested def that is a statement of the body itself
        yield n
        for c in ast.iter_child_nodes(n):
            if isinstance(c, (ast.FunctionDef, ast.AsyncFunctionDef,
                              ast.Lambda, ast.ClassDef)):
                continue
            stack.append(c)


walk_no_nested = _walk_no_nested

# Abstract slots: attribute of an actor whose concrete class is supplied by the
# user at run time.  (class, attribute) -> abstract base whose concrete
# subclasses inside topsim are all considered.  Confirmed by reading
# Simulation.__init__ / Planner.__init__ / Scheduler.__init__.
ABSTRACT_SLOTS = {
    ('Scheduler', 'algorithm'): 'Scheduling',
    ('Planner', 'model'): 'Planning',
    ('Simulation', 'instrument'): 'Instrument',
}

# Parameter names that carry an actor role where no constructor wiring types
# them (user algorithm signatures, static helpers).  Used only as the LAST
# typing fallback, after wiring and unique-method-name resolution.
ROLE_HINTS = {
    'cluster': 'Cluster', 'buffer': 'Buffer', 'scheduler': 'Scheduler',
    'planner': 'Planner', 'machine': 'Machine', 'task': 'Task',
    'observation': 'Observation', 'workflow_plan': 'WorkflowPlan',
    'current_plan': 'WorkflowPlan', 'config': 'Config',
    'simulation': 'Simulation', 'env': None,
}


class Repo:
    def __init__(self, root, package='topsim', extra_dirs=(), normalise=True):
        self.root = Path(root)
        pkg = self.root / package
        if not pkg.is_dir():
            raise AnalysisError('package directory %s not found' % pkg)
        self.modules = {}
        self.classes = {}
        self.functions = {}
        self.skipped = []
        files = sorted(pkg.rglob('*.py'))
        for d in extra_dirs:
            dd = self.root / d
            if dd.is_dir():
                files += sorted(dd.rglob('*.py'))
        mods = []
        for f in files:
            if '__pycache__' in f.parts:
                continue
            mods.append(Module(self.root, f))
        # pure renames of methods the rules name are mapped back first (sa/anchors.py)
        from . import anchors as _anchors
        self.renamed = _anchors.detect([m.tree for m in mods])
        _anchors.apply([m.tree for m in mods] + [m.orig_tree for m in mods], self.renamed)
        self.lifted = _anchors.lift_functions([m.tree for m in mods])
        _anchors.lift_functions([m.orig_tree for m in mods])
        # package-wide pre-passes (sa/prepass.py): module constants, named tuples
        from . import prepass as _prepass
        self.prepass = {
            'constants': _prepass.fold_module_constants({m.name: m.tree for m in mods}),
            'named_tuples': _prepass.erase_named_tuples([m.tree for m in mods]),
        }
        self.prepass['dict_ctors'] = _prepass.erase_dict_ctors([m.tree for m in mods])
        self.prepass['class_constants'] = _prepass.fold_class_constants([m.tree for m in mods])
        from . import idioms as _idioms
        self.prepass['library_idioms'] = _idioms.rewrite_package([m.tree for m in mods])
        # source normalisation (sa/normalize.py): needs every class for helper lookup
        self.normalised = {}
        if normalise:
            from .normalize import normalize_module
            from .norm import Canon
            allc = {}
            for m in mods:
                for n in m.tree.body:
                    if isinstance(n, ast.ClassDef):
                        allc.setdefault(n.name, n)
            # module-level functions the recorded tree does not have (extracted helpers), by unique name
            allf, dup = {}, set()
            for m in mods:
                for n in m.tree.body:
                    if isinstance(n, ast.FunctionDef) and n.name not in _anchors.RECORDED_FUNCTIONS:
                        if n.name in allf:
                            dup.add(n.name)
                        allf[n.name] = n
            for k in dup:
                allf.pop(k)
            for m in mods:
                try:
                    cnt = normalize_module(m.tree, Canon.NO_INLINE, allc, _anchors.recorded_methods(), allf)
                except RecursionError:
                    cnt = {}
                for k, v in cnt.items():
                    self.normalised[k] = self.normalised.get(k, 0) + v
        if self.prepass.get('named_tuples'):
            # constructor calls that only became plain after unrolling / idiom rewriting
            _prepass.erase_named_tuples([m.tree for m in mods])
            from .normalize import _scalarise_tuples, _SplitTupleAssign
            for m in mods:
                _idioms.rewrite_tree(m.tree)
                for n in ast.walk(m.tree):
                    if isinstance(n, ast.FunctionDef) and _scalarise_tuples(n):
                        _SplitTupleAssign().visit(n)
        for m in mods:
            self.modules[m.name] = m
            self._index_module(m)
        self._link_mro()
        self._mark_inlined()
        self.attr_types = {}
        self.elem_types = {}
        self._infer_attr_types()
        self._nonnull_families()

    def _nonnull_families(self):
        """Suffix patterns ('idle', '*') of subscript locations X['idle'][k] whose every store in
        the package assigns a value that cannot be None (a display, a number, a string, a
        list()/dict()/set() call).  Used by path pruning: a local read from such a location is
        not None."""
        from . import paths as _paths
        good, bad = set(), set()
        for m in self.modules.values():
            for n in ast.walk(m.tree):
                tgts = []
                if isinstance(n, ast.Assign):
                    tgts = [(t, n.value) for t in n.targets]
                elif isinstance(n, ast.AnnAssign) and n.value is not None:
                    tgts = [(n.target, n.value)]
                elif isinstance(n, ast.AugAssign):
                    tgts = [(n.target, None)]
                for t, v in tgts:
                    pat = _paths.loc_suffix(t)
                    if pat is None:
                        continue
                    if v is not None and _paths.never_none(v):
                        good.add(pat)
                    else:
                        bad.add(pat)
        _paths.NONNULL = good - bad

    # ------------------------------------------------------------------ E1
    def _index_module(self, m):
        for n in m.tree.body:
            if isinstance(n, ast.ClassDef):
                c = ClassInfo(m, n)
                m.classes[c.name] = c
                # first definition wins on simple-name clashes (none today)
                self.classes.setdefault(c.name, c)
                for b in n.body:
                    if isinstance(b, (ast.FunctionDef, ast.AsyncFunctionDef)):
                        f = FuncInfo(m, c, b)
                        c.methods[b.name] = f
                        self.functions.setdefault(f.qual, f)
                    elif isinstance(b, ast.ClassDef):
                        # nested class (DelayModel.DelayDegree)
                        nc = ClassInfo(m, b)
                        self.classes.setdefault(nc.name, nc)
            elif isinstance(n, (ast.FunctionDef, ast.AsyncFunctionDef)):
                f = FuncInfo(m, None, n)
                m.functions[n.name] = f
                self.functions.setdefault(f.qual, f)
            elif isinstance(n, ast.ImportFrom):
                for a in n.names:
                    m.imports[a.asname or a.name] = (n.module or '') + '.' + a.name
            elif isinstance(n, ast.Import):
                for a in n.names:
                    m.imports[a.asname or a.name.split('.')[0]] = a.name

    def _link_mro(self):
        def mro(c, seen):
            out = [c]
            for b in c.base_names:
                bc = self.classes.get(b)
                if bc is not None and bc not in seen:
                    seen.add(bc)
                    out += mro(bc, seen)
            return out
        for c in self.classes.values():
            c.mro = mro(c, {c})

    def enum_truth(self, expr):
        """Constant truth value of `EnumClass.MEMBER` used as a condition, else None."""
        if not (isinstance(expr, ast.Attribute) and isinstance(expr.value, ast.Name)):
            return None
        c = self.classes.get(expr.value.id)
        if c is None or not c.is_subclass_of('Enum') and 'Enum' not in c.base_names:
            return None
        for b in c.node.body:
            if isinstance(b, ast.AnnAssign) and isinstance(b.target, ast.Name) and b.value is not None:
                b = ast.Assign(targets=[b.target], value=b.value)
            if isinstance(b, ast.Assign) and any(
                    isinstance(t, ast.Name) and t.id == expr.attr for t in b.targets):
                if any(x in c.base_names for x in ('str', 'int', 'float')):
                    if isinstance(b.value, ast.Constant):
                        return bool(b.value.value)
                    return None
                return True
        return None

    def _mark_inlined(self):
        """helpers whose every call site was inlined by the normaliser are judged where they
        were inlined, not on their own"""
        remaining = {}
        for f in self.functions.values():
            for n in _walk_no_nested(f.node):
                if isinstance(n, ast.Call) and isinstance(n.func, ast.Attribute) and isinstance(
                        n.func.value, ast.Name) and n.func.value.id == 'self' and f.cls is not None:
                    m = f.cls.find_method(n.func.attr)
                    if m is not None and m is not f:
                        remaining[m.qual] = remaining.get(m.qual, 0) + 1
                elif isinstance(n, ast.Call) and isinstance(n.func, ast.Attribute):
                    for c in self.classes.values():
                        if n.func.attr in c.methods:
                            q = c.methods[n.func.attr].qual
                            if not (isinstance(n.func.value, ast.Name) and n.func.value.id == 'self'):
                                remaining[q] = remaining.get(q, 0) + 1
        named = {}
        for f in self.functions.values():
            for n in _walk_no_nested(f.node):
                if isinstance(n, ast.Call):
                    nm = n.func.id if isinstance(n.func, ast.Name) else (
                        n.func.attr if isinstance(n.func, ast.Attribute) else None)
                    if nm:
                        named[nm] = named.get(nm, 0) + 1
        for f in self.functions.values():
            f.inlined = bool(self.normalised.get(f.qual)) and not remaining.get(f.qual)
            if f.cls is None and self.normalised.get(':' + f.name) and not named.get(f.name):
                f.inlined = True          # a module-level helper inlined at every call

    def cls(self, name):
        c = self.classes.get(name)
        if c is None:
            raise AnalysisError('anchor class %s not found in %s' % (name, self.root))
        return c

    def func(self, qual):
        """'Class.method' (MRO-resolved) or 'module:function'."""
        if ':' in qual:
            f = self.functions.get(qual)
        else:
            cn, mn = qual.split('.', 1)
            c = self.classes.get(cn)
            f = c.find_method(mn) if c else None
        if f is None:
            raise AnalysisError('anchor function %s not found in %s' % (qual, self.root))
        return f

    def has_func(self, qual):
        try:
            self.func(qual)
            return True
        except AnalysisError:
            return False

    def subclasses(self, base, concrete_only=True):
        out = []
        for c in self.classes.values():
            if c.name != base and c.is_subclass_of(base):
                out.append(c)
        return sorted(out, key=lambda c: c.name)

    def all_functions(self, package_prefix='topsim', include_inlined=False):
        for q, f in sorted(self.functions.items()):
            if f.module.name.startswith(package_prefix):
                if getattr(f, 'inlined', False) and not include_inlined:
                    continue
                yield f

    def digests(self, prefix='topsim'):
        return {m.rel: m.sha256 for m in self.modules.values()
                if m.name.startswith(prefix)}

    # ------------------------------------------------------------------ E2
    def _infer_attr_types(self):
        """attr_types[(Class, attr)] = set(class names);
        elem_types[(Class, attr)] = set(class names) for containers."""
        at, et = self.attr_types, self.elem_types
        param_types = {}   # (func qual, param) -> set(class names)

        def type_of(expr, f, local):
            """set of class names for an expression inside function f."""
            if isinstance(expr, ast.Call):
                fn = expr.func
                if isinstance(fn, ast.Name) and fn.id in self.classes:
                    return {fn.id}
                if isinstance(fn, ast.Name) and fn.id in local:
                    # calling a parameter that holds a class (instrument(...))
                    return set()
                return set()
            if isinstance(expr, ast.Name):
                if expr.id == 'self' and f.cls:
                    return {f.cls.name}
                if expr.id in local:
                    return set(local[expr.id])
                return set(param_types.get((f.qual, expr.id), ()))
            if isinstance(expr, ast.Attribute):
                base = type_of(expr.value, f, local)
                out = set()
                for b in base:
                    for c in self.classes[b].mro if b in self.classes else ():
                        out |= at.get((c.name, expr.attr), set())
                return out
            if isinstance(expr, ast.Subscript):
                v = expr.value
                if isinstance(v, ast.Attribute):
                    base = type_of(v.value, f, local)
                    out = set()
                    for b in base:
                        out |= et.get((b, v.attr), set())
                    return out
            return set()

        def returned_display_types(callee):
            """For `return {0: hot}, {0: cold}` give per-position element types."""
            res = None
            local = {}
            for n in _walk_no_nested(callee.node):
                if isinstance(n, ast.Assign) and len(n.targets) == 1 and \
                        isinstance(n.targets[0], ast.Name):
                    t = type_of(n.value, callee, {})
                    if t:
                        local[n.targets[0].id] = t
            for n in _walk_no_nested(callee.node):
                if isinstance(n, ast.Return) and n.value is not None:
                    vals = n.value.elts if isinstance(n.value, ast.Tuple) else [n.value]
                    cur = []
                    for v in vals:
                        ts = set()
                        if isinstance(v, ast.Dict):
                            for x in v.values:
                                ts |= type_of(x, callee, local)
                            cur.append(('elem', ts))
                        elif isinstance(v, ast.Name) and v.id in local:
                            cur.append(('val', local[v.id]))
                        else:
                            cur.append(('val', type_of(v, callee, local)))
                    res = cur
            return res

        for _ in range(6):
            changed = False
            for f in list(self.functions.values()):
                if not f.cls:
                    continue
                local = {}
                for n in _walk_no_nested(f.node):
                    if not isinstance(n, ast.Assign) or len(n.targets) != 1:
                        # also learn param types from constructor calls below
                        pass
                    if isinstance(n, ast.Assign) and len(n.targets) == 1:
                        tgt = n.targets[0]
                        if isinstance(tgt, ast.Name):
                            t = type_of(n.value, f, local)
                            if t:
                                local[tgt.id] = t
                        elif isinstance(tgt, ast.Attribute) and isinstance(
                                tgt.value, ast.Name) and tgt.value.id == 'self':
                            t = type_of(n.value, f, local)
                            key = (f.cls.name, tgt.attr)
                            if t - at.get(key, set()):
                                at.setdefault(key, set()).update(t)
                                changed = True
                        elif isinstance(tgt, ast.Tuple) and isinstance(n.value, ast.Call):
                            callees = self._resolve_simple(n.value, f, type_of, local)
                            for cal in callees:
                                rd = returned_display_types(cal)
                                if not rd or len(rd) != len(tgt.elts):
                                    continue
                                for te, (kind, ts) in zip(tgt.elts, rd):
                                    if isinstance(te, ast.Attribute) and isinstance(
                                            te.value, ast.Name) and te.value.id == 'self' and ts:
                                        key = (f.cls.name, te.attr)
                                        store = et if kind == 'elem' else at
                                        if ts - store.get(key, set()):
                                            store.setdefault(key, set()).update(ts)
                                            changed = True
                    # constructor calls anywhere: bind argument types to params
                    if isinstance(n, ast.Call) and isinstance(n.func, ast.Name) \
                            and n.func.id in self.classes:
                        init = self.classes[n.func.id].find_method('__init__')
                        if init:
                            ps = init.params[1:]
                            for i, a in enumerate(n.args):
                                if i < len(ps):
                                    t = type_of(a, f, local)
                                    k = (init.qual, ps[i])
                                    if t - param_types.get(k, set()):
                                        param_types.setdefault(k, set()).update(t)
                                        changed = True
                            for kw in n.keywords:
                                if kw.arg:
                                    t = type_of(kw.value, f, local)
                                    k = (init.qual, kw.arg)
                                    if t - param_types.get(k, set()):
                                        param_types.setdefault(k, set()).update(t)
                                        changed = True
            if not changed:
                break
        # user-instrument construction: instrument(env=..., scheduler=self.scheduler)
        sim = self.classes.get('Simulation')
        if sim and '__init__' in sim.methods:
            f = sim.methods['__init__']
            for n in _walk_no_nested(f.node):
                if isinstance(n, ast.Call) and isinstance(n.func, ast.Name) and \
                        n.func.id in f.params:
                    for sub in self.subclasses('Instrument'):
                        init = sub.find_method('__init__')
                        if not init:
                            continue
                        for kw in n.keywords:
                            t = type_of(kw.value, f, {})
                            if kw.arg and t:
                                param_types.setdefault((init.qual, kw.arg), set()).update(t)
            # one more local pass for those subclasses
            for sub in self.subclasses('Instrument'):
                init = sub.find_method('__init__')
                if not init:
                    continue
                for n in _walk_no_nested(init.node):
                    if isinstance(n, ast.Assign) and len(n.targets) == 1:
                        tgt = n.targets[0]
                        if isinstance(tgt, ast.Attribute) and isinstance(
                                tgt.value, ast.Name) and tgt.value.id == 'self' \
                                and isinstance(n.value, ast.Name):
                            t = param_types.get((init.qual, n.value.id), set())
                            if t:
                                at.setdefault((sub.name, tgt.attr), set()).update(t)
        self.param_types = param_types
        for (cn, attr), base in ABSTRACT_SLOTS.items():
            if cn in self.classes:
                subs = {c.name for c in self.subclasses(base)}
                at.setdefault((cn, attr), set()).update(subs)

    def _resolve_simple(self, call, f, type_of, local):
        fn = call.func
        if isinstance(fn, ast.Attribute):
            ts = type_of(fn.value, f, local)
            out = []
            for t in ts:
                m = self.classes[t].find_method(fn.attr) if t in self.classes else None
                if m:
                    out.append(m)
            if out:
                return out
            return self.methods_named(fn.attr, unique_only=True)
        return []

    def methods_named(self, name, unique_only=False):
        out = []
        for c in self.classes.values():
            if name in c.methods and c.module.name.startswith('topsim'):
                out.append(c.methods[name])
        out.sort(key=lambda f: f.qual)
        if unique_only:
            # unique modulo inheritance: keep only roots of override chains
            roots = [f for f in out if not any(
                g is not f and f.cls.is_subclass_of(g.cls.name) for g in out)]
            return roots if len(roots) == 1 else []
        return out

    def expr_types(self, expr, f, local_types=None):
        """Best-effort set of class names for `expr` evaluated inside f."""
        local_types = local_types or {}
        if isinstance(expr, ast.Name):
            if expr.id == 'self' and f.cls:
                return {f.cls.name}
            if expr.id in local_types:
                return set(local_types[expr.id])
            t = set(self.param_types.get((f.qual, expr.id), ()))
            if t:
                return t
            # a local bound once to an expression has that expression's type
            if expr.id not in f.params:
                from .paths import local_aliases
                al = local_aliases(f)
                if expr.id in al and not (isinstance(al[expr.id], ast.Name) and al[expr.id].id == expr.id):
                    depth = getattr(self, '_et_depth', 0)
                    if depth < 6:
                        self._et_depth = depth + 1
                        try:
                            t = self.expr_types(al[expr.id], f, local_types)
                        finally:
                            self._et_depth = depth
                        if t:
                            return t
            # a loop / comprehension variable over a container of known element type:
            #   for v in X.values() / for k, v in X.items() / for v in X   (X = attribute with element types)
            if expr.id not in f.params:
                t = self._loop_var_types(expr.id, f, local_types)
                if t:
                    return t
            if getattr(self, 'no_role_hints', False):
                return set()
            h = ROLE_HINTS.get(expr.id)
            return {h} if h and h in self.classes else set()
        if isinstance(expr, ast.Attribute):
            out = set()
            for b in self.expr_types(expr.value, f, local_types):
                if b in self.classes:
                    for c in self.classes[b].mro:
                        out |= self.attr_types.get((c.name, expr.attr), set())
            if not out and not getattr(self, 'no_role_hints', False):
                h = ROLE_HINTS.get(expr.attr)
                if h and h in self.classes and not self._assigns_attr(
                        self.expr_types(expr.value, f, local_types), expr.attr):
                    out = {h}
            return out
        if isinstance(expr, ast.Subscript) and isinstance(expr.value, ast.Attribute):
            out = set()
            for b in self.expr_types(expr.value.value, f, local_types):
                out |= self.elem_types.get((b, expr.value.attr), set())
            return out
        if isinstance(expr, ast.Call) and isinstance(expr.func, ast.Name) and \
                expr.func.id in self.classes:
            return {expr.func.id}
        return set()

    def _loop_var_types(self, name, f, local_types):
        cache = self.__dict__.setdefault('_lv_cache', {})
        key = (id(f.node), name)
        if key in cache:
            return cache[key]
        cache[key] = set()
        binders = []
        stores = 0
        for n in ast.walk(f.node):
            if isinstance(n, ast.Name) and n.id == name and isinstance(n.ctx, ast.Store):
                stores += 1
            if isinstance(n, (ast.For, ast.AsyncFor)):
                binders.append((n.target, n.iter))
            elif isinstance(n, ast.comprehension):
                binders.append((n.target, n.iter))
        out = None
        n_bind = 0
        for tg, it in binders:
            role = None
            if isinstance(tg, ast.Name) and tg.id == name:
                role = 'elem'
            elif isinstance(tg, (ast.Tuple, ast.List)) and len(tg.elts) == 2 and isinstance(tg.elts[1], ast.Name) \
                    and tg.elts[1].id == name:
                role = 'value'
            if role is None:
                continue
            n_bind += 1
            ts = set()
            cont = None
            if isinstance(it, ast.Call) and isinstance(it.func, ast.Attribute) and not it.args:
                if role == 'value' and it.func.attr == 'items':
                    cont = it.func.value
                elif role == 'elem' and it.func.attr == 'values':
                    cont = it.func.value
            elif role == 'elem' and isinstance(it, ast.Attribute):
                cont = None       # iterating a dict attribute gives keys, a list attribute elements: not decided here
            if isinstance(cont, ast.Attribute):
                for b in self.expr_types(cont.value, f, local_types):
                    ts |= self.elem_types.get((b, cont.attr), set())
            if not ts:
                out = set()
                break
            out = ts if out is None else (out | ts)
        if out and n_bind == stores:
            cache[key] = out
        return cache[key]

    def _assigns_attr(self, base_types, attr):
        """does one of the classes assign self.<attr> itself (then its type is
        whatever is assigned, not a role hint)"""
        cache = self.__dict__.setdefault('_assign_cache', {})
        for b in base_types:
            c = self.classes.get(b)
            if c is None:
                continue
            for k in c.mro:
                key = (k.name, attr)
                if key not in cache:
                    found = False
                    for m in k.methods.values():
                        for n in _walk_no_nested(m.node):
                            if isinstance(n, ast.Attribute) and isinstance(n.ctx, ast.Store) \
                                    and n.attr == attr and isinstance(n.value, ast.Name) \
                                    and n.value.id == 'self':
                                found = True
                    cache[key] = found
                if cache[key] and (k.name, attr) not in self.attr_types:
                    return True
        return False

    def resolve_call(self, call, f, local_types=None):
        """Resolved callees (FuncInfo list) of an ast.Call inside function f.

        Order: receiver typing; unique method name in topsim; otherwise every
        class defining that method name (over-approximation, flagged by the
        second return value False)."""
        fn = call.func
        if isinstance(fn, ast.Name):
            if fn.id in f.module.functions:
                return [f.module.functions[fn.id]], True
            if fn.id in self.classes:
                init = self.classes[fn.id].find_method('__init__')
                return ([init] if init else []), True
            org = f.module.imports.get(fn.id)
            if org:
                mod, _, nm = org.rpartition('.')
                m = self.modules.get(mod)
                if m and nm in m.functions:
                    return [m.functions[nm]], True
            return [], True
        if isinstance(fn, ast.Attribute):
            if isinstance(fn.value, ast.Call) and isinstance(fn.value.func, ast.Name) \
                    and fn.value.func.id == 'super' and f.cls:
                for c in f.cls.mro[1:]:
                    if fn.attr in c.methods:
                        return [c.methods[fn.attr]], True
                return [], True
            ts = self.expr_types(fn.value, f, local_types)
            out = []
            for t in sorted(ts):
                if t in self.classes:
                    m = self.classes[t].find_method(fn.attr)
                    if m and m not in out:
                        out.append(m)
            if out:
                return out, True
            u = self.methods_named(fn.attr, unique_only=True)
            if u:
                return u, True
            return self.methods_named(fn.attr), False
        return [], True

    def call_sites(self, target_quals, prefix='topsim'):
        """All (caller FuncInfo, ast.Call, spawned?) whose resolved callee set
        intersects target_quals.  `spawned` is True when the call is the direct
        argument of <x>.process(...)."""
        target_quals = set(target_quals)
        out = []
        for f in self.all_functions(prefix):
            spawned_calls = set()
            for n in _walk_no_nested(f.node):
                if is_spawn(n):
                    spawned_calls.add(id(n.args[0]))
            for n in _walk_no_nested(f.node):
                if isinstance(n, ast.Call):
                    cal, exact = self.resolve_call(n, f)
                    if any(c.qual in target_quals for c in cal):
                        out.append((f, n, id(n) in spawned_calls, exact))
        return out


def is_spawn(n):
    """<env>.process(<call>)"""
    return (isinstance(n, ast.Call) and isinstance(n.func, ast.Attribute)
            and n.func.attr == 'process' and len(n.args) == 1
            and isinstance(n.args[0], ast.Call))



def _terminates(block):
    if not block:
        return False
    t = block[-1]
    if isinstance(t, (ast.Continue, ast.Break, ast.Return, ast.Raise)):
        return True
    return isinstance(t, ast.If) and _terminates(t.body) and _terminates(t.orelse)


def guard_stack(root, target):
    """Control context of `target` (a statement, or the value of an expression statement) inside
    function node `root`: [('for', node) | ('while', node) | ('if', test, polarity)], outermost
    first.  Guard clauses count: a statement after `if C: ...; continue` (break / return / raise)
    in the same block runs only under not C."""
    found = {}

    def block(stmts, stack):
        extra = []
        for st in stmts:
            cur = stack + extra
            if st is target or (isinstance(st, ast.Expr) and st.value is target) or (
                    isinstance(st, (ast.Assign, ast.AugAssign, ast.Return)) and getattr(st, 'value', None) is target):
                found['ns'] = cur
                return True
            if isinstance(st, ast.If):
                if block(st.body, cur + [('if', st.test, True)]) or block(st.orelse, cur + [('if', st.test, False)]):
                    return True
                bt, ot = _terminates(st.body), _terminates(st.orelse)
                if bt and not ot:
                    extra.append(('if', st.test, False))
                elif ot and not bt:
                    extra.append(('if', st.test, True))
            elif isinstance(st, (ast.For, ast.AsyncFor)):
                if block(st.body, cur + [('for', st)]) or block(st.orelse, cur):
                    return True
            elif isinstance(st, ast.While):
                if block(st.body, cur + [('while', st)]) or block(st.orelse, cur):
                    return True
            elif isinstance(st, (ast.With, ast.AsyncWith)):
                if block(st.body, cur):
                    return True
            elif isinstance(st, ast.Try):
                for b in [st.body, st.orelse, st.finalbody] + [h.body for h in st.handlers]:
                    if block(b, cur):
                        return True
        return False
    block(root.body, [])
    return found.get('ns')



def loop_leaves_early(loop):
    """does the loop body contain a `break` of this loop or a `return`: then the loop is not a
    plain map/filter over its iterable (later elements can be dropped)"""
    def rec(stmts, own):
        for st in stmts:
            if isinstance(st, ast.Return):
                return True
            if isinstance(st, ast.Break) and own:
                return True
            if isinstance(st, (ast.FunctionDef, ast.AsyncFunctionDef, ast.ClassDef)):
                continue
            if isinstance(st, (ast.For, ast.AsyncFor, ast.While)):
                if rec(st.body, False) or rec(st.orelse, own):
                    return True
                continue
            for field in ('body', 'orelse', 'finalbody'):
                sub = getattr(st, field, None)
                if isinstance(sub, list) and rec(sub, own):
                    return True
            for h in getattr(st, 'handlers', []) or []:
                if rec(h.body, own):
                    return True
        return False
    return rec(loop.body, True)
