"""Library idioms rewritten into the core forms the rest of the engine understands (pre-pass P3,
run on every module before the normaliser and again after helper inlining).

I1  operator.itemgetter / attrgetter: the getter is the lambda it abbreviates
        itemgetter('a')            ->  lambda _g: _g['a']
        itemgetter('a', 'b')       ->  lambda _g: (_g['a'], _g['b'])
        attrgetter('x.y')          ->  lambda _g: _g.x.y
    also behind a class-level, module-level or single-assignment local name (a getter object is
    not a function, so `self.KEY(x)` passes no receiver); an immediately applied lambda is
    beta-reduced.
I2  map / filter:  map(f, s) -> (f(_m) for _m in s);  filter(f, s) -> (_m for _m in s if f(_m))
I3  itertools.chain(A, B): all/any/sum over it splits into one term per part, a break-free
    `for` over it into one loop per part, anything else reads list(A) + list(B)
I4  functools.partial bound to a single-assignment local (or applied directly):
        p = partial(f, a, k=v);  p(x)  ->  f(a, x, k=v)
I5  collections.Counter(<elt for x in seq>)[K]  ->  len([x for x in seq if elt == K])
I6  match statements over value / singleton / or / wildcard / capture patterns -> if/elif chain
I7  annotated assignments inside functions -> plain assignments (annotations of parameters and
    returns are ignored by the engine anyway)
I8  functools.reduce(lambda acc, x: E, seq, init) with a boolean `or`/`and` body is any/all

Every rewrite is an identity of Python semantics under the stated conditions; when a condition
is not met the code is left as it is."""
import ast
import copy

_GETTERS = {'itemgetter', 'attrgetter'}
# Counter(...)[K] is understood natively by the count terms of sa/norm.py (COUNT_INFO); the rewrite
# I5 is kept for reference but switched off, because the native form also sees through locals
REWRITE_COUNTER = False
_n = [0]


def _fresh(p):
    _n[0] += 1
    return '%s__i%d' % (p, _n[0])


def _callee(call):
    """simple name of the called function: f(...) / mod.f(...)"""
    f = call.func
    if isinstance(f, ast.Name):
        return f.id
    if isinstance(f, ast.Attribute) and isinstance(f.value, ast.Name):
        return f.attr
    return None


def _is_lib(call, name, mods):
    f = call.func
    if isinstance(f, ast.Name):
        return f.id == name
    return isinstance(f, ast.Attribute) and f.attr == name and isinstance(f.value, ast.Name) and f.value.id in mods


def _simple(e):
    """evaluating e twice or later is the same as once now (no calls, no effects)"""
    if isinstance(e, (ast.Name, ast.Constant)):
        return True
    if isinstance(e, ast.Attribute):
        return _simple(e.value)
    if isinstance(e, ast.Subscript):
        return _simple(e.value) and _simple(e.slice)
    if isinstance(e, ast.Tuple):
        return all(_simple(x) for x in e.elts)
    if isinstance(e, ast.UnaryOp):
        return _simple(e.operand)
    return False


def _pure_call(c):
    """a call that only asks (a query method or a builtin reader): evaluating it for fewer
    elements than the loop would have visited changes nothing"""
    f = c.func
    if isinstance(f, ast.Name):
        return f.id in ('len', 'list', 'tuple', 'set', 'sorted', 'min', 'max', 'sum', 'any', 'all', 'isinstance', 'int',
                        'float', 'str', 'bool', 'abs', 'round')
    if isinstance(f, ast.Attribute):
        return f.attr.startswith(('is_', 'has_', 'get_')) or f.attr in (
            'predecessors', 'successors', 'keys', 'values', 'items', 'get', 'count', 'index')
    return False


def _cheap(e):
    """a pure reader of simple operands: len(x), int(x), str(x)"""
    return isinstance(e, ast.Call) and isinstance(e.func, ast.Name) and e.func.id in ('len', 'int', 'str', 'float') \
        and len(e.args) == 1 and not e.keywords and _simple(e.args[0])


def _as_load(e):
    e = copy.deepcopy(e)
    for x in ast.walk(e):
        if hasattr(x, 'ctx'):
            x.ctx = ast.Load()
    return e


def _getter_lambda(call):
    """lambda for itemgetter(...)/attrgetter(...) with literal arguments, else None"""
    if not (isinstance(call, ast.Call) and not call.keywords and call.args):
        return None
    kind = None
    if _is_lib(call, 'itemgetter', ('operator', 'op')):
        kind = 'item'
    elif _is_lib(call, 'attrgetter', ('operator', 'op')):
        kind = 'attr'
    if kind is None:
        return None
    v = '_g'
    parts = []
    for a in call.args:
        if kind == 'item':
            if not isinstance(a, ast.Constant):
                return None
            parts.append(ast.Subscript(value=ast.Name(id=v, ctx=ast.Load()), slice=copy.deepcopy(a), ctx=ast.Load()))
        else:
            if not (isinstance(a, ast.Constant) and isinstance(a.value, str)):
                return None
            e = ast.Name(id=v, ctx=ast.Load())
            for piece in a.value.split('.'):
                e = ast.Attribute(value=e, attr=piece, ctx=ast.Load())
            parts.append(e)
    body = parts[0] if len(parts) == 1 else ast.Tuple(elts=parts, ctx=ast.Load())
    lam = ast.Lambda(args=ast.arguments(posonlyargs=[], args=[ast.arg(arg=v)], kwonlyargs=[], kw_defaults=[],
                                        defaults=[], vararg=None, kwarg=None), body=body)
    lam._getter = True
    return ast.fix_missing_locations(ast.copy_location(lam, call))


class _SubstNames(ast.NodeTransformer):
    def __init__(self, m):
        self.m = m

    def visit_Name(self, node):
        if isinstance(node.ctx, ast.Load) and node.id in self.m:
            return copy.deepcopy(self.m[node.id])
        return node

    def visit_Lambda(self, node):
        inner = {k: v for k, v in self.m.items() if k not in {a.arg for a in node.args.args}}
        if inner:
            node.body = _SubstNames(inner).visit(node.body)
        return node


def _beta(call):
    """(lambda a, b: E)(x, y) -> E[a:=x, b:=y] when that cannot duplicate or reorder an effect"""
    lam = call.func
    if not isinstance(lam, ast.Lambda) or call.keywords:
        return None
    a = lam.args
    if a.vararg or a.kwarg or a.kwonlyargs or a.posonlyargs or a.defaults:
        return None
    if len(a.args) != len(call.args) or any(isinstance(x, ast.Starred) for x in call.args):
        return None
    m = {}
    for p, v in zip(a.args, call.args):
        uses = sum(1 for n in ast.walk(lam.body) if isinstance(n, ast.Name) and n.id == p.arg)
        if not (_simple(v) or uses <= 1):
            return None
        m[p.arg] = v
    return ast.copy_location(_SubstNames(m).visit(copy.deepcopy(lam.body)), call)


def _single_assigned(fn):
    """name -> value for locals bound exactly once by a plain assignment (not in a loop that
    rebinds them, not parameters)"""
    cnt = {}
    val = {}
    for n in ast.walk(fn):
        if isinstance(n, ast.Name) and isinstance(n.ctx, (ast.Store, ast.Del)):
            cnt[n.id] = cnt.get(n.id, 0) + 1
        elif isinstance(n, ast.arg):
            cnt[n.arg] = cnt.get(n.arg, 0) + 100          # a parameter: bound on entry
        elif isinstance(n, (ast.Global, ast.Nonlocal)):
            for x in n.names:
                cnt[x] = cnt.get(x, 0) + 1000
    for n in ast.walk(fn):
        if isinstance(n, ast.Assign) and len(n.targets) == 1 and isinstance(n.targets[0], ast.Name) \
                and cnt.get(n.targets[0].id) == 1:
            val[n.targets[0].id] = n.value
        elif isinstance(n, ast.AnnAssign) and isinstance(n.target, ast.Name) and n.value is not None \
                and cnt.get(n.target.id) == 1:
            val[n.target.id] = n.value
    return val, cnt


def _stable(e, cnt):
    """the expression reads only names that are never rebound in the function (so evaluating it
    later gives the value it had when it was captured)"""
    for n in ast.walk(e):
        if isinstance(n, ast.Name) and cnt.get(n.id, 0) not in (0, 1, 100):
            # rebound somewhere (0 = not a local, 1 = single-assignment local, 100 = parameter
            # that is never rebound)
            return False
        if isinstance(n, (ast.Call, ast.Yield, ast.YieldFrom, ast.Await, ast.NamedExpr)):
            return False
    return True


class _Rewrite(ast.NodeTransformer):
    def __init__(self, class_getters, module_getters):
        self.class_getters = class_getters       # {(class name or None, attr): lambda}
        self.module_getters = module_getters     # {name: lambda}
        self.cls = [None]
        self.local = [{}]
        self.single = [{}]
        self.changed = 0

    # ---- scopes
    def visit_ClassDef(self, node):
        self.cls.append(node.name)
        self.generic_visit(node)
        self.cls.pop()
        return node

    def _func(self, node):
        val, cnt = _single_assigned(node)
        loc = {}
        for k, v in val.items():
            lam = _getter_lambda(v) if isinstance(v, ast.Call) else None
            if lam is not None:
                loc[k] = ('getter', lam)
            elif isinstance(v, ast.Call) and _is_lib(v, 'partial', ('functools',)) and v.args \
                    and not any(isinstance(x, ast.Starred) for x in v.args) and all(k2.arg for k2 in v.keywords) \
                    and all(_stable(x, cnt) for x in list(v.args) + [k2.value for k2 in v.keywords]):
                loc[k] = ('partial', v)
            elif isinstance(v, ast.Call) and _is_lib(v, 'Counter', ('collections',)) and len(v.args) == 1 \
                    and isinstance(v.args[0], (ast.GeneratorExp, ast.ListComp)) and len(v.args[0].generators) == 1 \
                    and all(_stable(x, cnt) or True for x in [v.args[0]]):
                loc[k] = ('counter', v)
        self.local.append(loc)
        self.single.append(val)
        self.generic_visit(node)
        self.local.pop()
        node.body = self._stmts(node.body)
        self.single.pop()
        return node

    visit_FunctionDef = visit_AsyncFunctionDef = _func

    # ---- statements lists: match -> if, for over chain -> loops, AnnAssign -> Assign
    def _stmts(self, stmts):
        out = []
        for st in stmts:
            for field in ('body', 'orelse', 'finalbody'):
                sub = getattr(st, field, None)
                if isinstance(sub, list) and sub and isinstance(sub[0], ast.stmt) and not isinstance(
                        st, (ast.FunctionDef, ast.AsyncFunctionDef, ast.ClassDef)):
                    setattr(st, field, self._stmts(sub))
            for h in getattr(st, 'handlers', []) or []:
                h.body = self._stmts(h.body)
            if isinstance(st, ast.Match):
                for c in st.cases:
                    c.body = self._stmts(c.body)
                r = self._match(st)
                if r is not None:
                    self.changed += 1
                    out += r
                    continue
            if isinstance(st, ast.AnnAssign) and st.value is not None and isinstance(
                    st.target, (ast.Name, ast.Attribute, ast.Subscript)):
                self.changed += 1
                out.append(ast.copy_location(ast.Assign(targets=[st.target], value=st.value, type_comment=None), st))
                continue
            if isinstance(st, ast.AnnAssign) and st.value is None:
                self.changed += 1
                continue          # a bare declaration `x: int`
            if isinstance(st, ast.Expr) and isinstance(st.value, ast.Call) and isinstance(st.value.func, ast.Attribute) \
                    and st.value.func.attr == 'update' and _simple(st.value.func.value):
                # d.update(k=v, ...) / d.update({'k': v, ...}) on a plain dict: one item store per key
                c = st.value
                items = None
                if not c.args and c.keywords and all(k.arg for k in c.keywords):
                    items = [(ast.Constant(value=k.arg), k.value) for k in c.keywords]
                elif len(c.args) == 1 and not c.keywords and isinstance(c.args[0], ast.Dict) and all(
                        k is not None for k in c.args[0].keys):
                    items = list(zip(c.args[0].keys, c.args[0].values))
                if items and all(_simple(v) or isinstance(v, ast.Constant) for _k, v in items):
                    self.changed += 1
                    for k, v in items:
                        out.append(ast.fix_missing_locations(ast.copy_location(ast.Assign(
                            targets=[ast.Subscript(value=copy.deepcopy(c.func.value), slice=k, ctx=ast.Store())],
                            value=v, type_comment=None), st)))
                    continue
            if isinstance(st, ast.For):
                # a local bound to a literal tuple / dict display just before the loop and iterated
                # (directly, through .items()/.values()/.keys(), or as an argument of zip/enumerate)
                def lookback(name):
                    if self.single[-1].get(name) is None:
                        return None
                    for prev in reversed(out):
                        if isinstance(prev, ast.Assign) and len(prev.targets) == 1 and isinstance(prev.targets[0], ast.Name):
                            if prev.targets[0].id == name:
                                v = prev.value
                                if isinstance(v, ast.Dict):
                                    if all(k is not None for k in v.keys) and all(
                                            _simple(y) or _cheap(y) for y in list(v.keys) + list(v.values)):
                                        return v
                                    return None
                                if self._lit_seq(v) is not None and all(_simple(y) or _cheap(y) for y in self._lit_seq(v)):
                                    return v
                                return None
                            continue
                        if isinstance(prev, ast.Expr) and isinstance(prev.value, ast.Constant):
                            continue
                        break
                    return None

                def sub(e):
                    if isinstance(e, ast.Name):
                        lit = lookback(e.id)
                        return copy.deepcopy(lit) if lit is not None else e
                    if isinstance(e, ast.Call) and isinstance(e.func, ast.Attribute) and e.func.attr in (
                            'items', 'values', 'keys') and not e.args and isinstance(e.func.value, ast.Name):
                        lit = lookback(e.func.value.id)
                        if isinstance(lit, ast.Dict):
                            e.func.value = copy.deepcopy(lit)
                            return self.visit_Call(e)
                        return e
                    if isinstance(e, ast.Call) and isinstance(e.func, ast.Name) and e.func.id in ('zip', 'enumerate'):
                        na = [sub(x) for x in e.args]
                        if any(a is not b for a, b in zip(na, e.args)):
                            e.args = na
                            return self.visit_Call(e)
                    return e
                ni = sub(st.iter)
                if ni is not st.iter or ast.dump(ni) != ast.dump(st.iter):
                    st.iter = ni
                    self.changed += 1
            if isinstance(st, ast.AugAssign) and isinstance(st.op, ast.Add) and isinstance(st.value, ast.List) \
                    and st.value.elts and not any(isinstance(x, ast.Starred) for x in st.value.elts) and _simple(st.target):
                # xs += [a, b]  is  xs.append(a); xs.append(b)   (in-place for lists; a list display on the
                # right means xs is a list)
                self.changed += 1
                for x in st.value.elts:
                    out.append(ast.fix_missing_locations(ast.copy_location(ast.Expr(value=ast.Call(
                        func=ast.Attribute(value=_as_load(st.target), attr='append', ctx=ast.Load()), args=[x], keywords=[])), st)))
                continue
            if isinstance(st, ast.For) and st.orelse and len(st.body) == 1 and isinstance(st.body[0], ast.If) \
                    and not st.body[0].orelse and len(st.body[0].body) == 1 and isinstance(st.body[0].body[0], ast.Break) \
                    and isinstance(st.target, ast.Name) and not any(
                        isinstance(x, (ast.Call,)) and not _pure_call(x) for x in ast.walk(st.body[0].test)):
                # search loop:  for x in S: if C(x): break / else: E   ==   if not any(C(x) for x in S): E
                g = ast.GeneratorExp(elt=st.body[0].test, generators=[ast.comprehension(
                    target=st.target, iter=st.iter, ifs=[], is_async=0)])
                t = ast.UnaryOp(op=ast.Not(), operand=ast.Call(func=ast.Name(id='any', ctx=ast.Load()), args=[g], keywords=[]))
                self.changed += 1
                out.append(ast.fix_missing_locations(ast.copy_location(ast.If(test=t, body=st.orelse, orelse=[]), st)))
                continue
            if isinstance(st, ast.While) and not st.orelse and isinstance(st.test, ast.Constant) and st.test.value is True \
                    and st.body and isinstance(st.body[0], ast.If) and not st.body[0].orelse and len(st.body[0].body) == 1 \
                    and isinstance(st.body[0].body[0], ast.Break) and len(st.body) > 1:
                # while True: if C: break; REST   ==   while not C: REST
                c = st.body[0].test
                st.test = c.operand if isinstance(c, ast.UnaryOp) and isinstance(c.op, ast.Not) else ast.UnaryOp(
                    op=ast.Not(), operand=c)
                st.body = st.body[1:]
                ast.fix_missing_locations(st)
                self.changed += 1
            if isinstance(st, ast.For) and not st.orelse:
                parts = self._chain_parts(st.iter)
                if parts is not None and len(parts) > 1 and not any(
                        isinstance(x, (ast.Break,)) for x in ast.walk(st)):
                    self.changed += 1
                    for p in parts:
                        lp = copy.deepcopy(st)
                        lp.iter = p
                        out.append(lp)
                    continue
            out.append(st)
        return out or [ast.Pass()]

    @staticmethod
    def _chain_parts(e):
        if isinstance(e, ast.Call) and _is_lib(e, 'chain', ('itertools',)) and not e.keywords and e.args \
                and not any(isinstance(x, ast.Starred) for x in e.args):
            return list(e.args)
        if isinstance(e, ast.Call) and isinstance(e.func, ast.Attribute) and e.func.attr == 'from_iterable' \
                and isinstance(e.func.value, (ast.Name, ast.Attribute)) and (
                    getattr(e.func.value, 'id', None) == 'chain' or getattr(e.func.value, 'attr', None) == 'chain') \
                and len(e.args) == 1 and isinstance(e.args[0], (ast.Tuple, ast.List)) and not any(
                    isinstance(x, ast.Starred) for x in e.args[0].elts):
            return list(e.args[0].elts)
        return None

    def _match(self, st):
        subj = st.subject
        pre = []
        if not _simple(subj):
            nm = _fresh('subject')
            pre.append(ast.copy_location(ast.Assign(targets=[ast.Name(id=nm, ctx=ast.Store())], value=subj,
                                                    type_comment=None), st))
            subj = ast.Name(id=nm, ctx=ast.Load())

        def test(p):
            """(test expr or None for always, [binding stmts]) ; raises ValueError when unsupported"""
            if isinstance(p, ast.MatchValue):
                return ast.Compare(left=copy.deepcopy(subj), ops=[ast.Eq()], comparators=[p.value]), []
            if isinstance(p, ast.MatchSingleton):
                return ast.Compare(left=copy.deepcopy(subj), ops=[ast.Is()], comparators=[ast.Constant(value=p.value)]), []
            if isinstance(p, ast.MatchOr):
                ts = [test(x) for x in p.patterns]
                if any(b for _, b in ts):
                    raise ValueError
                if any(t is None for t, _ in ts):
                    return None, []
                return ast.BoolOp(op=ast.Or(), values=[t for t, _ in ts]), []
            if isinstance(p, ast.MatchAs):
                if p.pattern is None:
                    binds = []
                    if p.name:
                        binds = [ast.Assign(targets=[ast.Name(id=p.name, ctx=ast.Store())], value=copy.deepcopy(subj),
                                            type_comment=None)]
                    return None, binds
                t, b = test(p.pattern)
                if p.name:
                    b = b + [ast.Assign(targets=[ast.Name(id=p.name, ctx=ast.Store())], value=copy.deepcopy(subj),
                                        type_comment=None)]
                return t, b
            if isinstance(p, ast.MatchClass) and not p.patterns and not p.kwd_patterns:
                return ast.Call(func=ast.Name(id='isinstance', ctx=ast.Load()), args=[copy.deepcopy(subj), p.cls],
                                keywords=[]), []
            raise ValueError
        chain = None
        tail = None
        try:
            for c in st.cases:
                t, binds = test(c.pattern)
                if c.guard is not None:
                    if binds:
                        raise ValueError          # the guard may read the capture
                    t = c.guard if t is None else ast.BoolOp(op=ast.And(), values=[t, c.guard])
                body = binds + c.body
                if t is None:
                    node = body
                    if tail is None:
                        chain = body
                    else:
                        tail.orelse = body
                    tail = False
                    break
                node = ast.If(test=t, body=body, orelse=[])
                if tail is None:
                    chain = [node]
                else:
                    tail.orelse = [node]
                tail = node
        except ValueError:
            return None
        if chain is None:
            return None
        res = pre + chain
        for x in res:
            ast.copy_location(x, st)
            ast.fix_missing_locations(x)
        return res

    # ---- expressions
    def visit_Attribute(self, node):
        self.generic_visit(node)
        if not isinstance(node.ctx, ast.Load):
            return node
        # self.KEY / Cls.KEY / cls.KEY / type(self).KEY  where KEY is a class-level getter
        base = node.value
        owner = None
        if isinstance(base, ast.Name) and base.id in ('self', 'cls'):
            owner = self.cls[-1]
        elif isinstance(base, ast.Name):
            owner = base.id
        elif isinstance(base, ast.Call) and isinstance(base.func, ast.Name) and base.func.id == 'type':
            owner = self.cls[-1]
        lam = self.class_getters.get((owner, node.attr))
        if lam is None and isinstance(base, ast.Name) and base.id in ('self', 'cls'):
            # inherited: unique across the package
            cands = [v for (c, a), v in self.class_getters.items() if a == node.attr]
            if len(cands) == 1:
                lam = cands[0]
        if lam is not None:
            self.changed += 1
            return ast.copy_location(copy.deepcopy(lam), node)
        return node

    def visit_Name(self, node):
        if isinstance(node.ctx, ast.Load):
            ent = self.local[-1].get(node.id)
            if ent and ent[0] == 'getter':
                self.changed += 1
                return ast.copy_location(copy.deepcopy(ent[1]), node)
            if node.id in self.module_getters and not any(node.id in l for l in self.local):
                self.changed += 1
                return ast.copy_location(copy.deepcopy(self.module_getters[node.id]), node)
        return node

    def visit_Subscript(self, node):
        self.generic_visit(node)
        if not isinstance(node.ctx, ast.Load):
            return node
        c = node.value
        # (a, b, c)[1] is b
        if isinstance(c, (ast.Tuple, ast.List)) and isinstance(node.slice, ast.Constant) and isinstance(
                node.slice.value, int) and not isinstance(node.slice.value, bool) and not any(
                    isinstance(x, ast.Starred) for x in c.elts) and -len(c.elts) <= node.slice.value < len(c.elts) \
                and all(_simple(x) or _cheap(x) or isinstance(x, (ast.BinOp, ast.Compare)) for x in c.elts):
            self.changed += 1
            return c.elts[node.slice.value]
        # {False: a, True: b}[bool(x)]  is  b if x else a   (a two-way table keyed by a truth value)
        if isinstance(c, ast.Dict) and len(c.keys) == 2 and all(
                isinstance(k, ast.Constant) and isinstance(k.value, bool) for k in c.keys) \
                and c.keys[0].value != c.keys[1].value and isinstance(node.slice, ast.Call) \
                and isinstance(node.slice.func, ast.Name) and node.slice.func.id == 'bool' and len(node.slice.args) == 1 \
                and not node.slice.keywords and all(_simple(v) or isinstance(v, ast.Constant) for v in c.values):
            by = {k.value: v for k, v in zip(c.keys, c.values)}
            self.changed += 1
            return ast.fix_missing_locations(ast.copy_location(
                ast.IfExp(test=node.slice.args[0], body=by[True], orelse=by[False]), node))
        if not REWRITE_COUNTER:
            return node
        if isinstance(c, ast.Name) and self.local[-1].get(c.id, (None,))[0] == 'counter':
            c = self.local[-1][c.id][1]
        if isinstance(c, ast.Call) and _is_lib(c, 'Counter', ('collections',)) and len(c.args) == 1 and isinstance(
                c.args[0], (ast.GeneratorExp, ast.ListComp)) and len(c.args[0].generators) == 1 and _simple(node.slice):
            r = self._counter(c.args[0], node.slice)
            self.changed += 1
            return ast.copy_location(r, node)
        return node

    @staticmethod
    def _counter(comp, key):
        g = copy.deepcopy(comp.generators[0])
        cond = ast.Compare(left=copy.deepcopy(comp.elt), ops=[ast.Eq()], comparators=[copy.deepcopy(key)])
        g.ifs = list(g.ifs) + [cond]
        lc = ast.ListComp(elt=copy.deepcopy(g.target), generators=[g])
        for n in ast.walk(lc.elt):
            if isinstance(n, ast.Name):
                n.ctx = ast.Load()
        return ast.fix_missing_locations(ast.Call(func=ast.Name(id='len', ctx=ast.Load()), args=[lc], keywords=[]))

    @staticmethod
    def _lit_seq(e):
        """elements of a literal tuple/list, or the keys of a literal dict (iteration order)"""
        if isinstance(e, (ast.Tuple, ast.List)) and not any(isinstance(x, ast.Starred) for x in e.elts):
            return list(e.elts)
        if isinstance(e, ast.Dict) and all(k is not None for k in e.keys):
            return list(e.keys)
        return None

    def visit_Call(self, node):
        self.generic_visit(node)
        # f(*('a', 'b')) -> f('a', 'b')
        if any(isinstance(x, ast.Starred) and self._lit_seq(x.value) is not None for x in node.args):
            args = []
            for x in node.args:
                if isinstance(x, ast.Starred) and self._lit_seq(x.value) is not None:
                    args += [copy.deepcopy(y) for y in self._lit_seq(x.value)]
                else:
                    args.append(x)
            node.args = args
            self.changed += 1
        # {..}.values() / .keys() / .items() of a dict display
        if isinstance(node.func, ast.Attribute) and isinstance(node.func.value, ast.Dict) and not node.args \
                and not node.keywords and node.func.attr in ('values', 'keys', 'items') and all(
                    k is not None for k in node.func.value.keys):
            d = node.func.value
            if node.func.attr == 'values':
                elts = list(d.values)
            elif node.func.attr == 'keys':
                elts = list(d.keys)
            else:
                elts = [ast.Tuple(elts=[k, v], ctx=ast.Load()) for k, v in zip(d.keys, d.values)]
            self.changed += 1
            return ast.fix_missing_locations(ast.copy_location(ast.Tuple(elts=elts, ctx=ast.Load()), node))
        # zip of literal sequences of equal length
        if isinstance(node.func, ast.Name) and node.func.id == 'zip' and len(node.args) >= 2 and not node.keywords:
            seqs = [self._lit_seq(x) for x in node.args]
            if all(q is not None for q in seqs) and len({len(q) for q in seqs}) == 1:
                self.changed += 1
                rows = [ast.Tuple(elts=[copy.deepcopy(q[i]) for q in seqs], ctx=ast.Load()) for i in range(len(seqs[0]))]
                return ast.fix_missing_locations(ast.copy_location(ast.Tuple(elts=rows, ctx=ast.Load()), node))
        # getattr(x, 'name') with a literal name is x.name
        if isinstance(node.func, ast.Name) and node.func.id == 'getattr' and len(node.args) == 2 and not node.keywords \
                and isinstance(node.args[1], ast.Constant) and isinstance(node.args[1].value, str) \
                and node.args[1].value.isidentifier():
            self.changed += 1
            return ast.fix_missing_locations(ast.copy_location(
                ast.Attribute(value=node.args[0], attr=node.args[1].value, ctx=ast.Load()), node))
        # a getter written in place
        lam = _getter_lambda(node)
        if lam is not None:
            self.changed += 1
            return lam
        # Counter(...).get(K, 0)
        if REWRITE_COUNTER and isinstance(node.func, ast.Attribute) and node.func.attr == 'get' and len(node.args) in (1, 2) and (
                len(node.args) == 1 or (isinstance(node.args[1], ast.Constant) and node.args[1].value == 0)):
            c = node.func.value
            if isinstance(c, ast.Name) and self.local[-1].get(c.id, (None,))[0] == 'counter':
                c = self.local[-1][c.id][1]
            if isinstance(c, ast.Call) and _is_lib(c, 'Counter', ('collections',)) and len(c.args) == 1 and isinstance(
                    c.args[0], (ast.GeneratorExp, ast.ListComp)) and len(c.args[0].generators) == 1 \
                    and _simple(node.args[0]) and len(node.args) == 2:
                self.changed += 1
                return ast.copy_location(self._counter(c.args[0], node.args[0]), node)
        # partial applied
        p = None
        if isinstance(node.func, ast.Name) and self.local[-1].get(node.func.id, (None,))[0] == 'partial':
            p = self.local[-1][node.func.id][1]
        elif isinstance(node.func, ast.Call) and _is_lib(node.func, 'partial', ('functools',)) and node.func.args \
                and not any(isinstance(x, ast.Starred) for x in node.func.args) and all(k.arg for k in node.func.keywords):
            p = node.func
        if p is not None and not any(isinstance(x, ast.Starred) for x in node.args) and all(k.arg for k in node.keywords):
            kw = {k.arg: k.value for k in p.keywords}
            kw.update({k.arg: k.value for k in node.keywords})
            self.changed += 1
            r = ast.Call(func=copy.deepcopy(p.args[0]), args=[copy.deepcopy(x) for x in p.args[1:]] + list(node.args),
                         keywords=[ast.keyword(arg=k, value=copy.deepcopy(v)) for k, v in kw.items()])
            return self.visit_Call(ast.fix_missing_locations(ast.copy_location(r, node)))
        # {c1: v1, c2: v2}.get(K, D): a look-up table with a default is a chain of comparisons
        if isinstance(node.func, ast.Attribute) and node.func.attr == 'get' and isinstance(node.func.value, ast.Dict) \
                and len(node.args) == 2 and not node.keywords and _simple(node.args[0]) and node.func.value.keys and all(
                    isinstance(k, ast.Constant) for k in node.func.value.keys) and len(node.func.value.keys) <= 8 and all(
                        _simple(v) for v in node.func.value.values) and _simple(node.args[1]):
            d = node.func.value
            r = node.args[1]
            for k, v in reversed(list(zip(d.keys, d.values))):
                r = ast.IfExp(test=ast.Compare(left=copy.deepcopy(node.args[0]), ops=[ast.Eq()], comparators=[k]),
                              body=v, orelse=r)
            self.changed += 1
            return ast.fix_missing_locations(ast.copy_location(r, node))
        # (A if c else B)(args) -> A(args) if c else B(args)
        if isinstance(node.func, ast.IfExp) and all(_simple(x) for x in node.args) and all(
                k.arg and _simple(k.value) for k in node.keywords):
            def dist(fe):
                if isinstance(fe, ast.IfExp):
                    return ast.IfExp(test=fe.test, body=dist(fe.body), orelse=dist(fe.orelse))
                return ast.Call(func=fe, args=[copy.deepcopy(x) for x in node.args],
                                keywords=[copy.deepcopy(k) for k in node.keywords])
            self.changed += 1
            return ast.fix_missing_locations(ast.copy_location(dist(node.func), node))
        # beta reduction
        if isinstance(node.func, ast.Lambda):
            r = _beta(node)
            if r is not None:
                self.changed += 1
                return r
        name = _callee(node) if isinstance(node.func, ast.Name) else None
        # map / filter
        if name == 'map' and len(node.args) >= 2 and not node.keywords and not any(
                isinstance(x, ast.Starred) for x in node.args):
            f = node.args[0]
            seqs = node.args[1:]
            vs = [_fresh('_m') for _ in seqs]
            call = ast.Call(func=copy.deepcopy(f), args=[ast.Name(id=v, ctx=ast.Load()) for v in vs], keywords=[])
            if isinstance(call.func, ast.Lambda):
                call = _beta(call) or call
            if len(seqs) == 1:
                tgt, it = ast.Name(id=vs[0], ctx=ast.Store()), seqs[0]
            else:
                tgt = ast.Tuple(elts=[ast.Name(id=v, ctx=ast.Store()) for v in vs], ctx=ast.Store())
                it = ast.Call(func=ast.Name(id='zip', ctx=ast.Load()), args=list(seqs), keywords=[])
            self.changed += 1
            return ast.fix_missing_locations(ast.copy_location(ast.GeneratorExp(
                elt=call, generators=[ast.comprehension(target=tgt, iter=it, ifs=[], is_async=0)]), node))
        if name == 'filter' and len(node.args) == 2 and not node.keywords:
            f, seq = node.args
            v = _fresh('_m')
            if isinstance(f, ast.Constant) and f.value is None:
                cond = ast.Name(id=v, ctx=ast.Load())
            else:
                cond = ast.Call(func=copy.deepcopy(f), args=[ast.Name(id=v, ctx=ast.Load())], keywords=[])
                if isinstance(cond.func, ast.Lambda):
                    cond = _beta(cond) or cond
            self.changed += 1
            return ast.fix_missing_locations(ast.copy_location(ast.GeneratorExp(
                elt=ast.Name(id=v, ctx=ast.Load()),
                generators=[ast.comprehension(target=ast.Name(id=v, ctx=ast.Store()), iter=seq, ifs=[cond], is_async=0)]), node))
        # all / any / sum / len(list()) over a chain
        if name in ('all', 'any', 'sum') and len(node.args) == 1 and not node.keywords and isinstance(
                node.args[0], (ast.GeneratorExp, ast.ListComp)) and len(node.args[0].generators) == 1:
            comp = node.args[0]
            parts = self._chain_parts(comp.generators[0].iter)
            if parts is not None and len(parts) > 1:
                terms = []
                for p in parts:
                    c2 = copy.deepcopy(comp)
                    c2.generators[0].iter = p
                    terms.append(ast.Call(func=ast.Name(id=name, ctx=ast.Load()), args=[c2], keywords=[]))
                self.changed += 1
                if name == 'sum':
                    r = terms[0]
                    for t in terms[1:]:
                        r = ast.BinOp(left=r, op=ast.Add(), right=t)
                else:
                    r = ast.BoolOp(op=ast.And() if name == 'all' else ast.Or(), values=terms)
                return ast.fix_missing_locations(ast.copy_location(r, node))
        if name in ('all', 'any', 'sum') and len(node.args) == 1 and not node.keywords:
            parts = self._chain_parts(node.args[0])
            if parts is not None and len(parts) > 1:
                terms = [ast.Call(func=ast.Name(id=name, ctx=ast.Load()), args=[p], keywords=[]) for p in parts]
                self.changed += 1
                if name == 'sum':
                    r = terms[0]
                    for t in terms[1:]:
                        r = ast.BinOp(left=r, op=ast.Add(), right=t)
                else:
                    r = ast.BoolOp(op=ast.And() if name == 'all' else ast.Or(), values=terms)
                return ast.fix_missing_locations(ast.copy_location(r, node))
        # islice(seq, n) reads the first n elements: seq[:n]
        if _is_lib(node, 'islice', ('itertools',)) and len(node.args) in (2, 3) and not node.keywords:
            seq = node.args[0]
            lo, hi = (None, node.args[1]) if len(node.args) == 2 else (node.args[1], node.args[2])
            self.changed += 1
            return ast.fix_missing_locations(ast.copy_location(ast.Subscript(
                value=seq, slice=ast.Slice(lower=lo, upper=hi, step=None), ctx=ast.Load()), node))
        parts = self._chain_parts(node)
        if parts is not None:
            self.changed += 1
            r = None
            for p in parts:
                t = ast.Call(func=ast.Name(id='list', ctx=ast.Load()), args=[p], keywords=[])
                r = t if r is None else ast.BinOp(left=r, op=ast.Add(), right=t)
            return ast.fix_missing_locations(ast.copy_location(r, node))
        # reduce(operator.add, seq, init) == init + sum(seq)   (a left fold of additions)
        if name == 'reduce' and len(node.args) == 3 and not node.keywords:
            f0 = node.args[0]
            is_add = (isinstance(f0, ast.Attribute) and f0.attr == 'add' and isinstance(f0.value, ast.Name)
                      and f0.value.id in ('operator', 'op')) or (isinstance(f0, ast.Name) and f0.id == 'add') or (
                isinstance(f0, ast.Lambda) and len(f0.args.args) == 2 and isinstance(f0.body, ast.BinOp) and isinstance(
                    f0.body.op, ast.Add) and isinstance(f0.body.left, ast.Name) and isinstance(f0.body.right, ast.Name)
                and {f0.body.left.id, f0.body.right.id} == {a.arg for a in f0.args.args})
            if is_add:
                self.changed += 1
                return ast.fix_missing_locations(ast.copy_location(ast.BinOp(
                    left=node.args[2], op=ast.Add(),
                    right=ast.Call(func=ast.Name(id='sum', ctx=ast.Load()), args=[node.args[1]], keywords=[])), node))
        # reduce(lambda acc, x: acc or P(x), seq, False) == any(P(x) for x in seq); and/True == all
        if name == 'reduce' and len(node.args) == 3 and isinstance(node.args[0], ast.Lambda) and isinstance(
                node.args[2], ast.Constant) and isinstance(node.args[2].value, bool):
            lam, seq, init = node.args
            if len(lam.args.args) == 2 and isinstance(lam.body, ast.BoolOp) and len(lam.body.values) == 2:
                acc, x = lam.args.args[0].arg, lam.args.args[1].arg
                a, b = lam.body.values
                is_or = isinstance(lam.body.op, ast.Or)
                if isinstance(a, ast.Name) and a.id == acc and not any(
                        isinstance(n, ast.Name) and n.id == acc for n in ast.walk(b)) and init.value == (not is_or):
                    self.changed += 1
                    g = ast.GeneratorExp(elt=b, generators=[ast.comprehension(
                        target=ast.Name(id=x, ctx=ast.Store()), iter=seq, ifs=[], is_async=0)])
                    return ast.fix_missing_locations(ast.copy_location(ast.Call(
                        func=ast.Name(id='any' if is_or else 'all', ctx=ast.Load()), args=[g], keywords=[]), node))
        return node

    def _splice(self, node):
        # (*(a, b), *(c, d)) is (a, b, c, d)
        self.generic_visit(node)
        if isinstance(node.ctx, ast.Load) and any(
                isinstance(x, ast.Starred) and isinstance(x.value, (ast.Tuple, ast.List)) and not any(
                    isinstance(y, ast.Starred) for y in x.value.elts) for x in node.elts):
            elts = []
            for x in node.elts:
                if isinstance(x, ast.Starred) and isinstance(x.value, (ast.Tuple, ast.List)) and not any(
                        isinstance(y, ast.Starred) for y in x.value.elts):
                    elts += list(x.value.elts)
                else:
                    elts.append(x)
            node.elts = elts
            self.changed += 1
        return node

    visit_Tuple = visit_List = _splice

    def visit_Assign(self, node):
        # x = x + e / x = x - e (same simple target): the augmented form x += e
        self.generic_visit(node)
        if len(node.targets) == 1 and isinstance(node.value, ast.BinOp) and isinstance(node.value.op, (ast.Add, ast.Sub)) \
                and isinstance(node.targets[0], (ast.Name, ast.Attribute, ast.Subscript)) and _simple(node.targets[0]) \
                and ast.dump(_as_load(node.targets[0])) == ast.dump(node.value.left) and not any(
                    ast.dump(x) == ast.dump(node.value.left) for x in ast.walk(node.value.right)) and not isinstance(
                        node.value.right, (ast.List, ast.Tuple, ast.ListComp, ast.Dict, ast.Set, ast.JoinedStr)) and not (
                            isinstance(node.value.right, ast.Constant) and isinstance(node.value.right.value, str)):
            # (a list concatenation `xs = xs + [y]` rebinds, `xs += [y]` mutates: left as it is)
            self.changed += 1
            return ast.copy_location(ast.AugAssign(target=node.targets[0], op=node.value.op, value=node.value.right), node)
        return node

    _MIRROR = {ast.Lt: ast.Gt, ast.Gt: ast.Lt, ast.LtE: ast.GtE, ast.GtE: ast.LtE, ast.Eq: ast.Eq, ast.NotEq: ast.NotEq,
               ast.Is: ast.Is, ast.IsNot: ast.IsNot}

    def visit_Compare(self, node):
        # `0 < x`, `None is x`: the literal goes to the right (`x > 0`, `x is None`)
        self.generic_visit(node)

        def lit(e):
            return isinstance(e, ast.Constant) or (isinstance(e, ast.UnaryOp) and isinstance(e.op, ast.USub)
                                                   and isinstance(e.operand, ast.Constant))
        if len(node.ops) == 1 and type(node.ops[0]) in self._MIRROR and lit(node.left) and not lit(node.comparators[0]):
            self.changed += 1
            return ast.copy_location(ast.Compare(left=node.comparators[0], ops=[self._MIRROR[type(node.ops[0])]()],
                                                 comparators=[node.left]), node)
        return node

    def visit_IfExp(self, node):
        self.generic_visit(node)
        # B(D[K]) if K in D else X, D a display with constant keys: one branch per key
        t = node.test
        if isinstance(t, ast.Compare) and len(t.ops) == 1 and isinstance(t.ops[0], ast.In) and isinstance(
                t.comparators[0], ast.Dict) and _simple(t.left):
            d = t.comparators[0]
            if d.keys and all(isinstance(k, ast.Constant) for k in d.keys) and len(d.keys) <= 8 and all(
                    _simple(v) for v in d.values):
                dd, kd = ast.dump(d), ast.dump(t.left)

                class Pick(ast.NodeTransformer):
                    def __init__(self, v):
                        self.v = v
                        self.n = 0

                    def visit_Subscript(self, n):
                        if isinstance(n.value, ast.Dict) and ast.dump(n.value) == dd and ast.dump(n.slice) == kd:
                            self.n += 1
                            return copy.deepcopy(self.v)
                        self.generic_visit(n)
                        return n
                r = node.orelse
                for k, v in reversed(list(zip(d.keys, d.values))):
                    pk = Pick(v)
                    body = pk.visit(copy.deepcopy(node.body))
                    r = ast.IfExp(test=ast.Compare(left=copy.deepcopy(t.left), ops=[ast.Eq()], comparators=[k]),
                                  body=body, orelse=r)
                self.changed += 1
                return ast.fix_missing_locations(ast.copy_location(r, node))
        return node

    def visit_Lambda(self, node):
        self.generic_visit(node)
        return node


def _class_and_module_getters(trees):
    cg, mg = {}, {}
    stores = {}
    for t in trees:
        for n in ast.walk(t):
            if isinstance(n, ast.Attribute) and isinstance(n.ctx, (ast.Store, ast.Del)):
                stores[n.attr] = stores.get(n.attr, 0) + 1
    for t in trees:
        cnt = {}
        for st in t.body:
            for x in ast.walk(st) if not isinstance(st, (ast.FunctionDef, ast.ClassDef)) else []:
                if isinstance(x, ast.Name) and isinstance(x.ctx, ast.Store):
                    cnt[x.id] = cnt.get(x.id, 0) + 1
        for st in t.body:
            if isinstance(st, ast.Assign) and len(st.targets) == 1 and isinstance(st.targets[0], ast.Name) \
                    and cnt.get(st.targets[0].id) == 1 and isinstance(st.value, ast.Call):
                lam = _getter_lambda(st.value)
                if lam is not None:
                    mg[st.targets[0].id] = lam
            elif isinstance(st, ast.ClassDef):
                for b in st.body:
                    tgt, val = None, None
                    if isinstance(b, ast.Assign) and len(b.targets) == 1 and isinstance(b.targets[0], ast.Name):
                        tgt, val = b.targets[0].id, b.value
                    elif isinstance(b, ast.AnnAssign) and isinstance(b.target, ast.Name) and b.value is not None:
                        tgt, val = b.target.id, b.value
                    if tgt and isinstance(val, ast.Call) and not stores.get(tgt):
                        lam = _getter_lambda(val)
                        if lam is not None:
                            cg[(st.name, tgt)] = lam
    return cg, mg


_BUILTIN_METHODS = set(dir(list)) | set(dir(dict)) | set(dir(set)) | set(dir(str)) | set(dir(tuple))


def _signatures(trees):
    """function name -> positional parameter names (without self/cls), for names whose every
    definition in the package has the same parameters and no *args/**kwargs"""
    sigs = {}
    for t in trees:
        for c in ast.walk(t):
            if not isinstance(c, (ast.ClassDef, ast.Module)):
                continue
            for f in c.body:
                if not isinstance(f, (ast.FunctionDef, ast.AsyncFunctionDef)):
                    continue
                a = f.args
                params = [x.arg for x in a.posonlyargs + a.args]
                static = any(isinstance(d, ast.Name) and d.id == 'staticmethod' for d in f.decorator_list)
                if isinstance(c, ast.ClassDef) and not static:
                    params = params[1:]
                ok = not (a.vararg or a.kwarg or a.posonlyargs)
                sigs.setdefault(f.name, []).append(tuple(params) if ok else None)
    return {k: v[0] for k, v in sigs.items() if len(set(v)) == 1 and v[0] is not None and k not in _BUILTIN_METHODS
            and not (k.startswith('__') and k.endswith('__'))}


class _KwToPos(ast.NodeTransformer):
    """I11: f(a, k=v) with k the next positional parameter of every definition of f in the
    package reads f(a, v)"""

    def __init__(self, sigs):
        self.sigs = sigs
        self.changed = 0

    def visit_Call(self, node):
        self.generic_visit(node)
        if not node.keywords or any(k.arg is None for k in node.keywords) or any(
                isinstance(x, ast.Starred) for x in node.args):
            return node
        f = node.func
        name = f.attr if isinstance(f, ast.Attribute) else (f.id if isinstance(f, ast.Name) else None)
        params = self.sigs.get(name)
        if params is None:
            return node
        kw = {k.arg: k for k in node.keywords}
        if any(k not in params for k in kw):
            return node
        args = list(node.args)
        moved = False
        while len(args) < len(params) and params[len(args)] in kw:
            args.append(kw.pop(params[len(args)]).value)
            moved = True
        if moved:
            node.args = args
            node.keywords = [k for k in node.keywords if k.arg in kw]
            self.changed += 1
        return node


def rewrite_package(trees):
    """P3 on all modules (each tree is rewritten in place); returns the number of rewrites"""
    cg, mg = _class_and_module_getters(trees)
    n = 0
    k2p = _KwToPos(_signatures(trees))
    for t in trees:
        k2p.visit(t)
    n += k2p.changed
    for t in trees:
        for _ in range(3):
            rw = _Rewrite(cg, mg)
            rw.visit(t)
            n += rw.changed
            if not rw.changed:
                break
        ast.fix_missing_locations(t)
    k2p.changed = 0
    for t in trees:
        k2p.visit(t)
    n += k2p.changed
    return n


def rewrite_tree(tree):
    """P3 again on one module after literal loops were unrolled (getter lambdas applied to the
    unrolled elements)"""
    n = 0
    for _ in range(2):
        rw = _Rewrite({}, {})
        rw.visit(tree)
        n += rw.changed
        if not rw.changed:
            break
    if n:
        ast.fix_missing_locations(tree)
    return n


def rewrite_function(fn, cls_name=None):
    """P3 again on one function after helper inlining exposed new instances"""
    rw = _Rewrite({}, {})
    rw.cls = [cls_name]
    rw.visit(fn)
    if rw.changed:
        ast.fix_missing_locations(fn)
    return rw.changed
