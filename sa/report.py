"""E8 -- findings, known findings, evidence files."""
import ast
import json
import os
import re
import time
from pathlib import Path

VERIF = Path(__file__).resolve().parent.parent
KNOWN = VERIF / 'known_findings.txt'


def norm_construct(s):
    s = re.sub(r'\s+', ' ', str(s)).strip()
    return s[:160]


class Finding:
    def __init__(self, prop, rule, func, construct, message, where='', path=None):
        self.prop = prop
        self.rule = rule
        self.func = func            # 'module::qual' or qual
        self.construct = norm_construct(construct)
        self.message = message
        self.where = where
        self.path = path or []

    @property
    def key(self):
        return 'property=%s rule=%s at=%s construct=%s' % (
            self.prop, self.rule, self.func, self.construct)

    def to_json(self):
        return {'property': self.prop, 'rule': self.rule, 'function': self.func,
                'construct': self.construct, 'message': self.message,
                'where': self.where, 'path': self.path, 'key': self.key}


class Instance:
    """One obligation: a rule applied to one construct, with its verdict."""

    def __init__(self, rule, where, func, what, ok, reason=''):
        self.rule = rule
        self.where = where
        self.func = func
        self.what = norm_construct(what)
        self.ok = ok
        self.reason = reason

    def to_json(self):
        return {'rule': self.rule, 'where': self.where, 'function': self.func,
                'obligation': self.what, 'verdict': 'holds' if self.ok else 'VIOLATED',
                'reason': self.reason}


class Result:
    def __init__(self, prop):
        self.prop = prop
        self.instances = []
        self.findings = []
        self.notes = []
        self.functions = set()
        self.paths = 0
        self.rules = {}
        self.assumptions = []
        self.extra = {}

    def rule(self, rid, text):
        self.rules[rid] = text

    def ok(self, rule, fn, node, what, reason=''):
        self.instances.append(Instance(rule, _where(fn, node), _q(fn), what, True, reason))

    def bad(self, rule, fn, node, construct, message, path=None, what=None):
        w = _where(fn, node)
        self.instances.append(Instance(rule, w, _q(fn), what or construct, False, message))
        f = Finding(self.prop, rule, _q(fn), construct, message, w, path)
        if f.key not in {x.key for x in self.findings}:
            self.findings.append(f)

    def note(self, s):
        self.notes.append(s)

    def analysed(self, fn, npaths=0):
        self.functions.add(_q(fn))
        self.paths += npaths


def _q(fn):
    return fn if isinstance(fn, str) else fn.qual


def _where(fn, node):
    if isinstance(fn, str):
        return fn
    if node is None:
        return fn.where()
    return fn.where(node)


def load_known():
    """finding lines -> {key: text}; fixed lines are informational."""
    known, fixed = {}, []
    if KNOWN.exists():
        for line in KNOWN.read_text().splitlines():
            line = line.strip()
            if line.startswith('finding:'):
                body = line[len('finding:'):].strip()
                key, _, what = body.partition(' :: ')
                known[norm_construct(key)] = what.strip()
            elif line.startswith('fixed:'):
                fixed.append(line)
    return known, fixed


def finish(result, tier, seed, t0, repo, floors_ok=True, out=None):
    """Print the verdict lines, write evidence, return the exit status."""
    out = out or print
    known, fixed = load_known()
    evid_dir = VERIF / 'evidence'
    replay_dir = evid_dir / 'replay'
    replay_dir.mkdir(parents=True, exist_ok=True)
    new, old = [], []
    for f in result.findings:
        if norm_construct(f.key) in known:
            old.append(f)
        else:
            new.append(f)
    for f in old:
        out('KNOWN-FINDING: property=%s rule=%s at=%s %s -- %s' % (
            f.prop, f.rule, f.func, f.where, f.message))
    status = 0
    for i, f in enumerate(new):
        rp = replay_dir / ('%s_%s_%d.json' % (result.prop, re.sub(r'\W+', '_', f.rule), i))
        rp.write_text(json.dumps(f.to_json(), indent=1))
        out('VIOLATION property=%s replay=%s' % (result.prop, rp))
        out('  rule %s at %s in %s: %s' % (f.rule, f.where, f.func, f.message))
        out('  construct: %s' % f.construct)
        for step in f.path[:12]:
            out('    via %s' % step)
        status = 1
    n_obl = len(result.instances)
    n_ok = sum(1 for i in result.instances if i.ok)
    distinct = len({(i.rule, i.func, i.what) for i in result.instances})
    samples = [i.to_json() for i in result.instances if not i.ok][:10]
    seen_rules = set()
    for i in result.instances:
        if i.rule not in seen_rules and len(samples) < 40:
            seen_rules.add(i.rule)
            samples.append(i.to_json())
    ev = {
        'property_id': result.prop,
        'tier': tier,
        'seed': int(seed),
        'level': 'other',
        'coverage': {
            'explanation': (
                'Static analysis of the current source of %s (stdlib ast; nothing '
                'imported or executed). Each obligation is one rule applied to one '
                'construct (function, call site, path or table row) found in the '
                'source on this run; rules: %s' % (
                    repo.root if repo is not None else '?',
                    '; '.join('%s = %s' % kv for kv in sorted(result.rules.items())))),
            'obligations': n_obl,
            'discharged': n_ok,
            'evaluations': max(n_obl, 1),
            'distinct_nontrivial': distinct,
            'rule': 'one case = (rule id, function, normalised construct) matched in the '
                    'source; distinct by that triple; non-trivial = the rule found a real '
                    'construct to judge (vacuous matches are not recorded)',
            'samples': samples or [{'note': 'no obligations'}],
            'functions_analysed': sorted(result.functions),
            'paths_enumerated': result.paths,
            'files': repo.digests() if repo is not None else {},
            'rules': result.rules,
            'notes': result.notes[:60],
            'known_findings_reported': [f.key for f in old],
            'fixed_entries': fixed,
            'exhaustive': False,
        },
        'assumptions': result.assumptions,
        'wall_s': round(time.time() - t0, 3),
        'violations': len(new),
    }
    ev['coverage'].update(result.extra)
    (evid_dir / (result.prop + '.json')).write_text(json.dumps(ev, indent=1, default=str))
    out('%s %s: %d obligations, %d discharged, %d known finding(s), %d new violation(s), '
        '%d functions, %d paths, %.2fs' % (
            result.prop, tier, n_obl, n_ok, len(old), len(new),
            len(result.functions), result.paths, time.time() - t0))
    return status
