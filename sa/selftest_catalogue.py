"""Self-test catalogue (thorough tier): textual edits of the CURRENT tree, applied to a
scratch copy.  Each edit must match exactly once, otherwise the case is skipped (the
tree moved).  kind 'mutant' must be reported by the property's check, kind 'twin' is a
behaviour-preserving edit and must stay silent.  The seeded changes under
/verif/seeded/*/patch.diff are replayed in addition (see selftest.py)."""

S = 'topsim/core/scheduler.py'
C = 'topsim/core/cluster.py'
B = 'topsim/core/buffer.py'
T = 'topsim/core/task.py'
TEL = 'topsim/user/telescope.py'
SIM = 'topsim/core/simulation.py'
MON = 'topsim/core/monitor.py'
CFG = 'topsim/core/config.py'
DLY = 'topsim/core/delay.py'
INS = 'topsim/core/instrument.py'
PLN = 'topsim/core/planner.py'
BP = 'topsim/user/plan/batch_planning.py'
BA = 'topsim/user/schedule/batch_allocation.py'
QA = 'topsim/user/schedule/queue_allocation.py'
DP = 'topsim/user/schedule/dynamic_plan.py'
GR = 'topsim/user/schedule/greedy.py'


def M(prop, name, *edits):
    return {'prop': prop, 'kind': 'mutant', 'name': name, 'edits': list(edits)}


def W(prop, name, *edits):
    return {'prop': prop, 'kind': 'twin', 'name': name, 'edits': list(edits)}


GUARD = "if machine in curr_allocs or self.cluster.is_occupied(machine):"

CASES = [
    # ---------------- C01
    M('C01', 'release outside the triggered branch',
      (C, "            if ret.triggered:", "            if ret.triggered or ret.is_alive:")),
    M('C01', 'ingest machine stays in available',
      (C, "                self._clusters[c]['resources']['available'].remove(machine)\n                ret = self.env.process(",
       "                ret = self.env.process(")),
    M('C01', 'both defences against a duplicate/occupied machine removed',
      (S, GUARD, "if self.cluster.is_occupied(machine) and False:"),
      (C, "                    raise RuntimeError\n", "                    pass\n"),
      (C, "                        raise RuntimeError(\n                            \"Machine is neither available nor provisioned \"\n                            \"for this observation\")",
       "                        pass")),
    M('C01', 'new executor in the scheduler',
      (S, "                curr_allocs.append(machine)", "                curr_allocs.append(machine)\n                self.env.process(task.do_work(self.env, machine))")),
    W('C01', 'scheduler duplicate guard removed (cluster still refuses)', (S, GUARD, "if self.cluster.is_occupied(machine):")),
    W('C01', 'scheduler occupied guard removed (cluster still refuses)', (S, GUARD, "if machine in curr_allocs:")),
    W('C01', 'resources dict bound to a local',
      (C, "        if machine in self.get_available_resources():\n            self._clusters[c]['resources']['available'].remove(machine)\n            self._clusters[c]['resources'][pool].append(machine)\n            return True",
       "        res = self._clusters[c]['resources']\n        if machine in self.get_available_resources():\n            res['available'].remove(machine)\n            res[pool].append(machine)\n            return True")),
    # ---------------- C02
    M('C02', 'available pool not shrunk when reserving',
      (C, "            self._clusters[c]['resources']['idle'][observation].append(machine)\n            self._remove_available_resource(machine)",
       "            self._clusters[c]['resources']['idle'][observation].append(machine)")),
    M('C02', 'getter returns the pool itself',
      (C, "        return [x for x in self._clusters[c]['resources']['available']]\n\n    def is_observation_provisioned",
       "        return self._clusters[c]['resources']['available']\n\n    def is_observation_provisioned")),
    M('C02', 'running_tasks decrement dropped',
      (C, "                self._clusters[c]['usage_data']['running_tasks'] -= 1\n", "")),
    M('C02', 'machine returned to both pools',
      (C, "            self._clusters[c]['resources']['idle'][observation].append(machine)\n        else:\n            self._clusters[c]['resources']['available'].append(machine)",
       "            self._clusters[c]['resources']['idle'][observation].append(machine)\n        self._clusters[c]['resources']['available'].append(machine)")),
    M('C02', 'status of _set_machine_occupied dropped again',
      (C, "                    if not self._set_machine_occupied(machine, observation):\n                        raise RuntimeError(\n                            \"Machine is neither available nor provisioned \"\n                            \"for this observation\")",
       "                    self._set_machine_occupied(machine, observation)")),
    W('C02', 'counter updates reordered',
      (C, "                    self._clusters[c]['usage_data']['available'] -= 1\n                    self._clusters[c]['usage_data']['running_tasks'] += 1\n\n                    task.task_status",
       "                    self._clusters[c]['usage_data']['running_tasks'] += 1\n                    self._clusters[c]['usage_data']['available'] -= 1\n\n                    task.task_status")),
    W('C02', 'list comprehension copy -> list()',
      (C, "        return [x for x in self._clusters[c]['resources']['available']]\n\n    def is_observation_provisioned",
       "        return list(self._clusters[c]['resources']['available'])\n\n    def is_observation_provisioned")),
    M('C02', 'machine appended to the busy pool before it is taken out of the reservation', (C, "            self._clusters[c]['resources']['idle'][observation].remove(machine)\n            self._clusters[c]['resources'][pool].append(machine)", "            self._clusters[c]['resources'][pool].append(machine)\n            self._clusters[c]['resources']['idle'][observation].remove(machine)")),
    M('C02', 'a usage counter starts at one', (C, "        self._usage_data = {'occupied': 0, 'ingest': 0,", "        self._usage_data = {'occupied': 0, 'ingest': 1,")),
    # ---------------- C03
    M('C03', 'counting gate weakened', (BA, "                            if count < len(list(pred)):", "                            if count < len(list(pred)) - 1:")),
    M('C03', 'same-machine predecessors waited for instead', (S, "            if pred_machine != machine:", "            if pred_machine == machine:")),
    M('C03', 'start recorded before the transfer wait',
      (T, "        if predecessor_allocations:\n            yield env.timeout(\n                self._wait_for_transfer(env, machine, predecessor_allocations))\n        self.task_status = TaskStatus.RUNNING\n        self.ast = env.now",
       "        self.task_status = TaskStatus.RUNNING\n        self.ast = env.now\n        if predecessor_allocations:\n            yield env.timeout(\n                self._wait_for_transfer(env, machine, predecessor_allocations))")),
    M('C03', 'sender bandwidth in the wait', (T, "            transfer_time = self.io[task.id] / machine.bandwidth", "            transfer_time = self.io[task.id] / task.bandwidth")),
    M('C03', 'subset test weakened to intersection', (GR, "                    if not pred.issubset(finished):", "                    if not pred.intersection(finished):")),
    W('C03', 'counting test rewritten', (QA, "                        if count < len(list(pred)):", "                        if not count >= len(list(pred)):")),
    M('C03', 'watcher blocks on the work process', (C, "                    yield self.env.timeout(1)\n            if ret.triggered:", "                    yield self.env.timeout(1)\n                    if not ret.triggered:\n                        yield ret\n            if ret.triggered:")),
    M('C03', 'submitted task not recorded', (S, "                allocation_pairs[task.id] = (task, machine)\n", "")),
    M('C03', 'recorded with the planned machine', (S, "                allocation_pairs[task.id] = (task, machine)\n", "                allocation_pairs[task.id] = (task, self.cluster.get_machine_from_id(task.allocated_machine_id))\n")),
    # ---------------- C04
    M('C04', 'hand-off without pop',
      (B, "            self.observations['scheduled'].append(self.observations['stored'].pop())", "            self.observations['scheduled'].append(self.observations['stored'][-1])")),
    M('C04', 'plan filter inverted', (S, "            if t.task_status is not TaskStatus.FINISHED:\n                remaining_tasks.append(t)", "            if t.task_status is TaskStatus.FINISHED:\n                remaining_tasks.append(t)")),
    M('C04', 'is_finished drops the cluster', (SIM, "                self.buffer.is_empty() and self.cluster.is_idle() and", "                self.buffer.is_empty() and")),
    M('C04', 'both SCHEDULED writes removed',
      (S, "                task.task_status = TaskStatus.SCHEDULED\n", ""),
      (C, "                    task.task_status = TaskStatus.SCHEDULED\n                    ret = self.env.process(task.do_work", "                    ret = self.env.process(task.do_work")),
    W('C04', 'scheduler SCHEDULED write removed (cluster still writes it)', (S, "                task.task_status = TaskStatus.SCHEDULED\n", "")),
    M('C04', 'hand-off returns the oldest scheduled observation', (B, "            return self.observations['scheduled'][-1]", "            return self.observations['scheduled'][0]")),
    W('C04', 'hand-off returns the popped observation itself', (B, "            self.observations['scheduled'].append(self.observations['stored'].pop())\n            return self.observations['scheduled'][-1]", "            obs = self.observations['stored'].pop()\n            self.observations['scheduled'].append(obs)\n            return obs")),
    M('C04', 'submitted proposal stays in the schedule', (S, "                schedule.pop(task, None)\n", "")),
    M('C04', 'schedule not submitted', (S, "                schedule, allocation_pairs = self._process_current_schedule(\n                    schedule, allocation_pairs, current_plan.id)\n", "                pass\n")),
    M('C04', 'allocation loop left when NOT finished', (S, "            if finished:\n                # We have finished this observation", "            if not finished:\n                # We have finished this observation")),
    M('C04', 'completion does not mark FINISHED', (C, "                task.task_status = TaskStatus.FINISHED\n                task.delay_flag = task.delay_flag", "                task.delay_flag = task.delay_flag")),
    M('C04', 'open-ended start takes the bounded branch', (SIM, "        if runtime > 0:\n            self.env.run(until=runtime)", "        if not runtime > 0:\n            self.env.run(until=runtime)")),
    M('C04', 'take-over when nothing is ready', (S, "            if self.buffer.has_observations_ready_for_processing():", "            if not self.buffer.has_observations_ready_for_processing():")),
    W('C04', 'allocation loop as while-not-finished', (S, "        while True:\n            current_plan.tasks = self._update_current_plan(current_plan)", "        finished = False\n        while not finished:\n            current_plan.tasks = self._update_current_plan(current_plan)"),
      (S, "            if finished:\n                # We have finished this observation\n                # LOGGER.info(f'{observation.name} Removed from Queue @'\n                #             f'{self.env.now}')\n                # self.cluster.release_batch_resources(observation)\n                break\n", "            if finished:\n                continue\n")),
    M('C04', 'scheduler never switched to RUNNING', (S, "        self.status = SchedulerStatus.RUNNING\n        return self.status", "        return self.status")),
    M('C04', 'scheduler loop left whenever the queue is empty', (S, "                    not self.observation_queue and self.status ==", "                    not self.observation_queue or self.status ==")),
    M('C04', 'closing path reports not finished', (S, "                finished = True\n", "                finished = False\n")),
    M('C04', 'submission guard inverted', (S, "                if task.task_status != TaskStatus.UNSCHEDULED:\n                    raise RuntimeError(\"Producing schedule", "                if task.task_status == TaskStatus.UNSCHEDULED:\n                    raise RuntimeError(\"Producing schedule")),
    # ---------------- C05
    M('C05', 'release of the ingest reservation dropped', (S, "            self.provision_ingest -= pipeline_demand\n", "")),
    M('C05', 'loop yield made conditional', (S, "            yield self.env.timeout(1)\n\n        if RunStatus.FINISHED:", "            if time_left > 0:\n                yield self.env.timeout(1)\n\n        if RunStatus.FINISHED:")),
    M('C05', 'guard of hot stored[-1] removed', (B, "                    if self.hot[b].observations['stored'] and \\\n                            self.cold[b].has_capacity_for(", "                    if self.cold[b].has_capacity_for(")),
    M('C05', 'greedy membership guard removed', (GR, "        elif machine in temporary_resources:", "        else:")),
    W('C05', 'algorithm-side partition release removed (scheduler still releases)', (BA, "            cluster.release_batch_resources(workflow_plan.id)\n", "")),
    M('C05', 'constructor loses an attribute the loop reads', (B, "        self.threshold = 0.6\n", "")),
    M('C05', 'local read before any assignment', (S, "        time_left = observation.duration - 1\n        while ingest_observation", "        while ingest_observation")),
    W('C05', 'attribute moved to a class-level default', (B, "        self.threshold = 0.6\n", "        type(self).threshold = 0.6\n")),
    M('C05', 'scheduler loop runs while NOT running', (S, "        while self.status is SchedulerStatus.RUNNING:", "        while self.status is not SchedulerStatus.RUNNING:")),
    M('C05', 'monitor loop while False', (MON, "    def run(self):\n        while True:", "    def run(self):\n        while False:")),
    M('C05', 'successors never enter the pool', (QA, "        task_pool.update(added)\n", "")),
    M('C05', 'successors of root tasks forgotten', (BA, "                            removed.add(task)\n                            added.update(workflow_plan.graph.successors(task))\n                        else:", "                            removed.add(task)\n                        else:")),
    W('C05', 'pool fed through a list of proposed tasks', (QA, "        task_pool -= removed\n        task_pool.update(added)\n", "        task_pool -= removed\n        for done in removed:\n            task_pool.update(workflow_plan.graph.successors(done))\n")),
    M('C05', 'in-flight size read when nothing is in flight', (B, "        size = observation_size\n        if self.observations['transfer']:\n            size = observation_size + self.observations[\n                'transfer'].total_data_size\n\n\n        return (", "        size = observation_size\n        if not self.observations['transfer']:\n            size = observation_size + self.observations[\n                'transfer'].total_data_size\n\n\n        return (")),
    M('C05', 'refused hot->cold move loses the observation (L17)', (B, "            self.hot[b].observations['stored'].append(current_obs)\n            self.hot[b].observations['transfer'] = None\n            return False", "            self.hot[b].observations['transfer'] = None\n            return False")),
    M('C05', 'refused cold->hot move leaves the slot set (L17)', (B, "            self.cold[b].observations['stored'].append(current_obs)\n            self.cold[b].observations['transfer'] = None\n            return False", "            self.cold[b].observations['stored'].append(current_obs)\n            return False")),
    M('C05', 'reservation read for an observation that has none', (C, "        elif observation in self._clusters[c]['resources']['idle']:\n            self._clusters[c]['resources']['idle'][observation].remove(machine)", "        elif observation not in self._clusters[c]['resources']['idle']:\n            self._clusters[c]['resources']['idle'][observation].remove(machine)")),
    # ---------------- C06
    M('C06', 'timeout(total) instead of total - 1', (T, "            yield env.timeout(total_duration - 1)", "            yield env.timeout(total_duration)")),
    M('C06', 'max -> min', (T, "        return  max(compute_time, data_time)", "        return  min(compute_time, data_time)")),
    M('C06', 'ingest duration - 1', (C, "            t.duration = observation.duration", "            t.duration = observation.duration - 1")),
    W('C06', 'int(a/b) -> a // b', (T, "        compute_time = int(self.flops / machine.cpu)\n        data_time = int(self.task_data / machine.bandwidth)\n        return",
                                    "        compute_time = self.flops // machine.cpu\n        data_time = self.task_data // machine.bandwidth\n        return")),
    W('C06', 'branches merged with max()', (T, "        if total_duration < 1:\n            yield env.timeout(0)\n        else:\n            yield env.timeout(total_duration - 1)",
                                            "        yield env.timeout(max(total_duration - 1, 0))")),
    # ---------------- C07
    M('C07', 'data size not accumulated', (B, "            observation.total_data_size += observation.ingest_data_rate\n", "")),
    M('C07', 'remove frees the rate', (B, "            self.current_capacity += observation.total_data_size\n            self.observations['finished'].append(observation)",
                                       "            self.current_capacity += observation.ingest_data_rate\n            self.observations['finished'].append(observation)")),
    M('C07', 'countdown starts at duration', (B, "        time_left = observation.duration - 1\n        if observation.status is RunStatus.WAITING:", "        time_left = observation.duration\n        if observation.status is RunStatus.WAITING:")),
    M('C07', 'rate check after the decrement',
      (B, "        if int(incoming_datarate) > self.max_ingest_data_rate:\n            raise ValueError(\n                'Incoming data rate {0} exceeds maximum.'.format(\n                    incoming_datarate)\n            )\n\n        self.current_capacity -= incoming_datarate",
       "        self.current_capacity -= incoming_datarate\n        if int(incoming_datarate) > self.max_ingest_data_rate:\n            raise ValueError(\n                'Incoming data rate {0} exceeds maximum.'.format(\n                    incoming_datarate)\n            )\n")),
    W('C07', 'rate hoisted into a local', (B, "            observation.total_data_size += observation.ingest_data_rate\n", "            rate = observation.ingest_data_rate\n            observation.total_data_size += rate\n")),
    M('C07', 'last step does not store the observation', (B, "                self.hot[b].observations[\"stored\"].append(observation)\n", "")),
    # ---------------- C08
    M('C08', 'is_ready loses the array test', (INS, "        if self.est <= current_time \\\n                and self.demand <= capacity \\\n                and self.status", "        if self.est <= current_time \\\n                and self.status")),
    M('C08', 'cluster check and -> or', (C, "                   'available']) >= pipeline_demand and len(", "                   'available']) >= pipeline_demand or len(")),
    M('C08', 'RUNNING written without the WAITING guard',
      (S, "            if ingest_observation.status is RunStatus.WAITING:", "            if ingest_observation.status is not RunStatus.FINISHED and time_left == observation.duration - 1:")),
    M('C08', 'finish keeps the arrays', (TEL, "        self.telescope_use -= observation.demand\n", "")),
    W('C08', 'is_ready conjunction as nested ifs',
      (INS, "        if self.est <= current_time \\\n                and self.demand <= capacity \\\n                and self.status is RunStatus.WAITING:\n            return True\n        else:\n            return False",
       "        if self.est <= current_time:\n            if self.demand <= capacity:\n                if self.status is RunStatus.WAITING:\n                    return True\n        return False")),
    M('C08', 'an observation is born with a start time', (INS, "        self.ast = None\n", "        self.ast = start\n")),
    M('C08', 'planned start rounded', (CFG, "                    start=observation['start'] / timestep_multiplier,", "                    start=round(observation['start'] / timestep_multiplier),")),
    # ---------------- C09
    M('C09', 'batch draws from the free pool', (BA, "            temporary_resources = cluster.get_idle_resources(workflow_plan.id)", "            temporary_resources = cluster.get_available_resources()")),
    M('C09', 'partition bound dropped', (BA, "            if cluster.num_provisioned_obs < self.max_resources_split:", "            if cluster.num_provisioned_obs <= self.max_resources_split:")),
    M('C09', 'owner return always to available',
      (C, "        if observation in self._clusters[c]['resources']['idle']:\n            self._clusters[c]['resources']['idle'][observation].append(machine)\n        else:\n            self._clusters[c]['resources']['available'].append(machine)",
       "        self._clusters[c]['resources']['available'].append(machine)")),
    M('C09', 'minimum test dropped', (BA, "                if provision < self.min_resource_per_workflow:\n                    return False\n                else:", "                if True:")),
    M('C09', 'reservation not counted', (C, "        self.num_provisioned_obs += 1\n        return True", "        return True")),
    M('C09', 'count lowered without dropping the key', (C, "        if self._clusters[c]['resources']['idle'][observation]:\n            self._clusters[c]['resources']['idle'].pop(observation)\n            self.num_provisioned_obs -= 1", "        if self._clusters[c]['resources']['idle'][observation]:\n            self._clusters[c]['resources']['idle'].pop(observation)\n        self.num_provisioned_obs -= 1")),
    # ---------------- C10
    M('C10', 'sorted removed again', (BA, "            for task in sorted(task_pool, key=lambda t: t.id):", "            for task in task_pool:")),
    M('C10', 'bare default_rng()', (DLY, "            if default_rng(self.seed).random() < self.prob:", "            if default_rng().random() < self.prob:")),
    M('C10', 'wall clock into a table column', (S, "        df['delay_offset'] = [self.delay_offset]", "        df['delay_offset'] = [self.delay_offset + time.time() * 0]")),
    M('C10', '__repr__ removed', (QA, "    def __repr__(self):\n        return \"QueueProcessing\"\n", "")),
    W('C10', 'tuple key containing the id', (QA, "        for task in sorted(task_pool, key=lambda t: t.id):", "        for task in sorted(task_pool, key=lambda t: (t.est, t.id)):")),
    # ---------------- C11
    M('C11', 'resume re-registers a process', (SIM, "        self.env.run(until=until)\n", "        self.env.process(self.monitor.run())\n        self.env.run(until=until)\n")),
    M('C11', 'resume guard removed', (SIM, "        if not self.running:\n            raise RuntimeError(\n                \"Simulation has not been started! Call start() to initialise \"\n                \"the process stack.\"\n            )\n", "")),
    M('C11', 'collation stops clearing', (MON, "            self.simulation.scheduler.events = []\n", "")),
    M('C11', 'resume resets the flag', (SIM, "        self.env.run(until=until)\n", "        self.env.run(until=until)\n        self.running = False\n")),
    W('C11', 'flag set after registering (same segment)', (SIM, "        self.running = True\n        self.env.process(self.monitor.run())", "        self.env.process(self.monitor.run())\n        self.running = True")),
    W('C11', 'resume also collates', (SIM, "        self.env.run(until=until)\n", "        self.env.run(until=until)\n        self.monitor.collate_events()\n")),
    # ---------------- C12
    M('C12', 'monitor registered last',
      (SIM, "        self.env.process(self.monitor.run())\n        self.env.process(self.instrument.run())", "        self.env.process(self.instrument.run())"),
      (SIM, "        self.env.process(self.buffer.run())\n", "        self.env.process(self.buffer.run())\n        self.env.process(self.monitor.run())\n")),
    M('C12', 'monitor sleeps two steps', (MON, "            self.collate_events()\n            yield self.env.timeout(1)", "            self.collate_events()\n            yield self.env.timeout(2)")),
    M('C12', 'column reads another counter', (C, "        df['ingest_resources'] = [\n            self._clusters['default']['usage_data']['ingest']]", "        df['ingest_resources'] = [\n            self._clusters['default']['usage_data']['occupied']]")),
    M('C12', 'counter update dropped', (C, "                    self._clusters[c]['usage_data']['ingest'] += 1\n", "")),
    # ---------------- C13
    M('C13', 'an emit deleted', (S, "                    self._add_event(obs, \"queue\", \"added\")\n", "")),
    M('C13', 'time stamped now + 1', (S, "        self.events.append({\"time\": int(self.env.now), \"actor\": \"scheduler\",", "        self.events.append({\"time\": int(self.env.now) + 1, \"actor\": \"scheduler\",")),
    M('C13', 'a list not collated', (MON, "        if self.simulation.buffer.events:\n            self.events = pd.concat([self.events,\n                                    pd.DataFrame(self.simulation.buffer.events)])\n            self.simulation.buffer.events = []\n", "")),
    M('C13', 'producer-side clear re-added to Buffer.run', (B, "        while True:\n            if self.env.now % 1000 == 0:\n                LOGGER.debug(\n                    \"\\nHotBuffer", "        while True:\n            self.events = []\n            if self.env.now % 1000 == 0:\n                LOGGER.debug(\n                    \"\\nHotBuffer")),
    W('C13', 'emit moved within its block', (S, "                    ret = self.env.process(self.allocate_tasks(obs))\n                    self._add_event(obs, \"queue\", \"added\")", "                    self._add_event(obs, \"queue\", \"added\")\n                    ret = self.env.process(self.allocate_tasks(obs))")),
    M('C13', 'instrument events collected only when there are none', (MON, "        if self.simulation.instrument.events:", "        if not self.simulation.instrument.events:")),
    # ---------------- C14
    M('C14', 'predecessors built from successors', (BP, "                pred = list(graph.predecessors(task))", "                pred = list(graph.successors(task))")),
    M('C14', 'wrong node attribute', (BP, "                task_compute =  graph.nodes[task]['comp']", "                task_compute =  graph.nodes[task].get('task_data', 0)")),
    M('C14', 'id without the observation name', (PLN.replace('core/planner', 'algorithms/planning'), "        return observation.name + '_' + str(clock) + '_' + str(tid)", "        return str(clock) + '_' + str(tid)")),
    M('C14', 'query roles swapped', (PLN, "    def get_task_successors(self, task_id):\n        return self.graph.successors(task_id)", "    def get_task_successors(self, task_id):\n        return self.graph.predecessors(task_id)")),
    M('C14', 'Task truncates its demands', (T, "        self.flops = flops\n        self.task_data = task_data", "        self.flops = int(flops)\n        self.task_data = int(task_data)")),
    # ---------------- C15
    M('C15', 'filter below the mean', (DLY, "        var = s[s > mu]", "        var = s[s < mu]")),
    M('C15', 'seed dropped in the normal branch', (DLY, "            s = default_rng(self.seed).normal(mu, sigma, n)", "            s = default_rng().normal(mu, sigma, n)")),
    M('C15', 'delay_flag write dropped', (T, "        if self.duration < total_duration:\n            self.delay_flag = True\n", "        if self.duration < total_duration:\n")),
    M('C15', 'DELAYED branch dropped', (S, "                if t.delay_flag:\n                    self.schedule_status = ScheduleStatus.DELAYED\n", "                if t.delay_flag:\n")),
    M('C15', 'delay flags examined only on the finished head of the plan', (S, "            else:\n                if t.delay_flag:\n                    self.schedule_status = ScheduleStatus.DELAYED\n                    self.delay_offset += t.delay_offset", "                break\n            if t.delay_flag:\n                self.schedule_status = ScheduleStatus.DELAYED\n                self.delay_offset += t.delay_offset")),
    # ---------------- C16
    M('C16', '3600 -> 360 in the buffer ladder', (CFG, "            timestep_multiplier = 3600\n        elif isinstance(self.timestep_unit, int):\n            # This is a custom unit\n            timestep_multiplier = self.timestep_unit\n        else:  # Seconds\n            timestep_multiplier = timestep_multiplier\n\n        hot",
                                                  "            timestep_multiplier = 360\n        elif isinstance(self.timestep_unit, int):\n            # This is a custom unit\n            timestep_multiplier = self.timestep_unit\n        else:  # Seconds\n            timestep_multiplier = timestep_multiplier\n\n        hot")),
    W('C16', 'buffer ladder as a lookup with int fallback',
      (CFG, "        if self.timestep_unit == 'minutes':\n            timestep_multiplier = 60\n        if self.timestep_unit == 'hours':\n            timestep_multiplier = 3600\n        elif isinstance(self.timestep_unit, int):\n            # This is a custom unit\n            timestep_multiplier = self.timestep_unit\n        else:  # Seconds\n            timestep_multiplier = timestep_multiplier\n\n        hot",
       "        if isinstance(self.timestep_unit, int):\n            timestep_multiplier = self.timestep_unit\n        else:\n            timestep_multiplier = {'minutes': 60, 'hours': 3600}.get(self.timestep_unit, 1)\n\n        hot")),
    M('C16', 'duration multiplied', (CFG, "duration=observation['duration'] / timestep_multiplier", "duration=observation['duration'] * timestep_multiplier")),
    M('C16', 'capacity scaled', (CFG, "hot = HotBuffer(capacity=config['hot']['capacity'],", "hot = HotBuffer(capacity=config['hot']['capacity'] * timestep_multiplier,")),
    # ---------------- C17
    M('C17', 'fallback to another machine', (DP, "                if machine not in temporary_resources:\n                    continue", "                if machine not in temporary_resources:\n                    machine = temporary_resources[0]")),
    W('C17', 'planned id via a local', (DP, "                machine = cluster.get_machine_from_id(task.allocated_machine_id)", "                mid = task.allocated_machine_id\n                machine = cluster.get_machine_from_id(mid)")),
    # ---------------- C18
    M('C18', 'two different rates again', (B, "            data_left_to_transfer = self.cold[b].transfer_observation(\n                current_obs, transfer_rate, data_left_to_transfer\n            )",
                                           "            data_left_to_transfer = self.cold[b].transfer_observation(\n                current_obs, self.cold[b].max_data_rate, data_left_to_transfer\n            )")),
    M('C18', 'refusal without re-append', (B, "            self.cold[b].observations['stored'].append(current_obs)\n            self.cold[b].observations['transfer'] = None\n            return False", "            self.cold[b].observations['transfer'] = None\n            return False")),
    W('C18', 'rate computed inline', (B, "            check = self.hot[b].receive_observation(\n                current_obs,\n                data_left_to_transfer,\n                transfer_rate\n            )",
                                      "            check = self.hot[b].receive_observation(\n                current_obs,\n                data_left_to_transfer,\n                min(self.hot[b].max_ingest_data_rate, self.cold[b].max_data_rate)\n            )")),
    M('C18', 'room asked for the oldest stored observation', (B, "        if not self.cold[b].has_capacity_for(data_left_to_transfer):\n            # We cannot actually transfer the observation due to size\n            # constraints\n            # TODO create an object method to update the hot buffer\n            self.hot[b].observations['stored'].append(current_obs)", "        if not self.cold[b].has_capacity_for(self.hot[b].observations['stored'][0].total_data_size if self.hot[b].observations['stored'] else 0):\n            self.hot[b].observations['stored'].append(current_obs)")),
    M('C18', 'move loop goes on at residual zero', (B, "            if data_left_to_transfer <= 0:\n                LOGGER.info(\n                    \"Buffer transfer completed at time %s\", self.env.now\n                )\n                self._add_event(current_obs, \"transfer\", \"stopped\")\n                break\n\n            check = self.cold[b].receive_observation(", "            if data_left_to_transfer < 0:\n                LOGGER.info(\n                    \"Buffer transfer completed at time %s\", self.env.now\n                )\n                self._add_event(current_obs, \"transfer\", \"stopped\")\n                break\n\n            check = self.cold[b].receive_observation(")),
    # ---------------- C19
    M('C19', 'and -> or again', (C, "                (len(self._clusters['default']['tasks']['running']) == 0) and (", "                (len(self._clusters['default']['tasks']['running']) == 0) or (")),
    M('C19', 'telescope test inverted', (TEL, "        if ((not self.telescope_status) and self.telescope_use == 0):", "        if ((not self.telescope_status) or self.telescope_use == 0):")),
    W('C19', 'De Morgan rewrite', (TEL, "        if ((not self.telescope_status) and self.telescope_use == 0):\n            return True\n        return False", "        if self.telescope_status or self.telescope_use != 0:\n            return False\n        return True")),
    W('C19', 'scheduler query via truthiness', (S, "        return len(self.observation_queue) == 0", "        return not self.observation_queue")),
    # ---------------- round 7 rules
    M('C04', 'scheduler polls the buffer only under a cheap test (T14)',
      (S, "            if self.buffer.has_observations_ready_for_processing():",
       "            if len(self.buffer.waiting_observation_list) > 0 and self.buffer.has_observations_ready_for_processing():")),
    W('C04', 'poll result through a temporary (T14)',
      (S, "            if self.buffer.has_observations_ready_for_processing():",
       "            ready_now = self.buffer.has_observations_ready_for_processing()\n            if ready_now:")),
    M('C04', 'pool scan left at the first task whose predecessors are unfinished (T15)',
      (QA, "                        if count < len(list(pred)):\n                            continue",
       "                        if count < len(list(pred)):\n                            break")),
    M('C04', 'unfinished task dropped when the last listed one is finished (T3 equivalence)',
      (S, "            if t.task_status is not TaskStatus.FINISHED:\n                remaining_tasks.append(t)",
       "            if t.task_status is not TaskStatus.FINISHED and not (current_plan.tasks and current_plan.tasks[-1].task_status is TaskStatus.FINISHED):\n                remaining_tasks.append(t)")),
    M('C06', 'plain duration returned although the task has a delay model (W3)',
      (T, "        if self.delay is not None:\n            return self.delay.generate_delay(self.duration)",
       "        if self.delay is not None and self.duration >= 1:\n            return self.delay.generate_delay(self.duration)")),
    M('C08', 'observation loop left at the first observation that is not due (A14)',
      (TEL, "            for observation in self.observations:\n",
       "            for observation in self.observations:\n                if observation.est > self.env.now:\n                    break\n")),
    M('C10', 'pool sorted by a value computed from the id (D1)',
      (BA, "            for task in sorted(task_pool, key=lambda t: t.id):", "            for task in sorted(task_pool, key=lambda t: len(t.id)):")),
    M('C10', 'generator kept in the delay model (D2)',
      (DLY, "        self.seed = seed\n", "        self.seed = seed\n        self._rng = default_rng(seed)\n")),
    M('C14', 'plan re-sorts its task list by (est, id) (G5)',
      (PLN, "        self.tasks = tasks\n", "        self.tasks = sorted(tasks, key=lambda t: (t.est, t.id))\n")),
    W('C14', 'plan keeps a stable sort by planned start (G5)',
      (PLN, "        self.tasks = tasks\n", "        self.tasks = sorted(tasks, key=lambda t: t.est)\n")),
    M('C15', 'delay test made on a copy of the duration taken before it is recomputed (Y5)',
      (T, "        if (self.flops > 0) or (self.task_data > 0):\n            self.duration = self.calculate_runtime(machine)",
       "        planned = self.duration\n        if (self.flops > 0) or (self.task_data > 0):\n            self.duration = self.calculate_runtime(machine)"),
      (T, "        if self.duration < total_duration:\n            self.delay_flag = True", "        if planned < total_duration:\n            self.delay_flag = True")),
    M('C15', 'delay book-keeping skipped when nothing remains (Y5)',
      (S, "        remaining_tasks = []\n        for t in current_plan.tasks:",
       "        remaining_tasks = []\n        if all(t.task_status is TaskStatus.FINISHED for t in current_plan.tasks):\n            return remaining_tasks\n        for t in current_plan.tasks:")),
    M('C17', 'scheduler core puts a pair into the schedule itself (S3)',
      (S, "        # If the workflow is finished\n        if not schedule and status is WorkflowStatus.FINISHED:",
       "        if not schedule and len(current_plan.tasks) == 1 and self.cluster.get_available_resources():\n            schedule[current_plan.tasks[0]] = self.cluster.get_available_resources()[0]\n        if not schedule and status is WorkflowStatus.FINISHED:")),
]
