"""Source normalisation applied before any rule runs (stdlib ast, semantics-preserving).

The rules judge the *normalised* program, so that behaviour-preserving edits do not
change a verdict:

 N1  conditional expressions at statement level become if/else
        x = a if c else b      ->  if c: x = a  else: x = b        (also `return`)
 N2  loops over a literal tuple/list of up to 6 elements are unrolled
 N3  calls to small private helpers of the same class are inlined
        statement level:  self._h(a)      x = self._h(a)      return self._h(a)
        expression level: helpers that are straight-line assignments + `return <expr>`
        comprehension:    x = [self._h(v) for v in I]  ->  x = []; for v in I: <body>; x.append(r)
     never inlined: generators, recursive helpers, helpers whose NAME is a semantic anchor of
     a rule (Canon.NO_INLINE), helpers longer than 60 statements
 N4  `a, b = X` keeps working for provenance (handled in norm.Canon.p), listed here for the record

Line numbers of the original statements are kept, so reports still point at real lines.
"""
import ast
import copy

from . import idioms as _idioms

MAX_HELPER_STMTS = 60
MAX_UNROLL = 6

_counter = [0]


def _fresh(prefix):
    _counter[0] += 1
    return '%s__n%d' % (prefix, _counter[0])


def _is_docstring(s):
    return isinstance(s, ast.Expr) and isinstance(s.value, ast.Constant) and isinstance(s.value.value, str)


def _is_logging(s):
    if isinstance(s, ast.Expr) and isinstance(s.value, ast.Call):
        f = s.value.func
        return isinstance(f, ast.Attribute) and f.attr in ('debug', 'info', 'warning', 'error') and \
            isinstance(f.value, ast.Name) and f.value.id.lower() in ('logger', 'log')
    return False


def _walk_no_nested(node):
    stack = [node]
    while stack:
        n = stack.pop()
        yield n
        for c in ast.iter_child_nodes(n):
            if isinstance(c, (ast.FunctionDef, ast.AsyncFunctionDef, ast.ClassDef, ast.Lambda)) and c is not node:
                continue
            stack.append(c)


def _contains_yield(fn):
    return any(isinstance(n, (ast.Yield, ast.YieldFrom)) for n in _walk_no_nested(fn) if n is not fn) or \
        any(isinstance(n, (ast.Yield, ast.YieldFrom)) for s in fn.body for n in _walk_no_nested(s))


# --------------------------------------------------------------------------- N1
class _IfExpDesugar(ast.NodeTransformer):
    """N1: a simple statement holding a conditional expression becomes an if/else of two
    copies of the statement.  A conditional that is not the whole value is hoisted only
    when its test is free of calls (so evaluating it first changes nothing)."""

    @staticmethod
    def _find(stmt):
        """(parent, field, index, IfExp) of the first hoistable conditional expression"""
        top = getattr(stmt, 'value', None)

        def pure(t):
            return not any(isinstance(x, (ast.Call, ast.Yield, ast.YieldFrom, ast.Await, ast.NamedExpr))
                           for x in ast.walk(t))

        def rec(n):
            for field, val in ast.iter_fields(n):
                items = val if isinstance(val, list) else [val]
                for i, c in enumerate(items):
                    if not isinstance(c, ast.AST):
                        continue
                    if isinstance(c, (ast.Lambda, ast.ListComp, ast.SetComp, ast.DictComp, ast.GeneratorExp,
                                      ast.FunctionDef, ast.AsyncFunctionDef, ast.ClassDef)):
                        continue
                    if isinstance(c, ast.IfExp) and (c is top or pure(c.test)):
                        return n, field, (i if isinstance(val, list) else None), c
                    r = rec(c)
                    if r is not None:
                        return r
            return None
        return rec(stmt)

    def _split(self, node, depth=0):
        if depth > 6:
            return node
        hit = self._find(node)
        if hit is None:
            return node
        parent, field, idx, ie = hit

        def variant(repl):
            if idx is None:
                setattr(parent, field, repl)
            else:
                getattr(parent, field)[idx] = repl
            c = copy.deepcopy(node)
            return c
        a = variant(ie.body)
        b = variant(ie.orelse)
        a = self._split(a, depth + 1)
        b = self._split(b, depth + 1)
        new = ast.If(test=ie.test, body=[a], orelse=[b])
        return ast.copy_location(new, node)

    def visit_Assign(self, node):
        return self._split(node)

    def visit_AugAssign(self, node):
        return self._split(node)

    def visit_Expr(self, node):
        return self._split(node)

    def visit_Return(self, node):
        if node.value is None:
            return node
        return self._split(node)

    def visit_Lambda(self, node):
        return node


# --------------------------------------------------------------------------- N8
def _pure_expr(e):
    return not any(isinstance(x, (ast.Call, ast.Yield, ast.YieldFrom, ast.Await, ast.NamedExpr, ast.IfExp,
                                  ast.Lambda, ast.ListComp, ast.SetComp, ast.DictComp, ast.GeneratorExp))
                   for x in ast.walk(e))


class _DictIdioms(ast.NodeTransformer):
    """N8: D.setdefault(k, v) -> `if k not in D: D[k] = v` + D[k];
    D.get(k, literal) -> D[k] if k in D else literal   (D and k free of calls)."""

    def _rewrite(self, node):
        pre = []

        class T(ast.NodeTransformer):
            def visit_Lambda(self, n):
                return n

            def visit_ListComp(self, n):
                return n
            visit_SetComp = visit_DictComp = visit_GeneratorExp = visit_ListComp

            def visit_Call(self, n):
                self.generic_visit(n)
                f = n.func
                if isinstance(f, ast.Attribute) and f.attr == 'get' and not n.keywords and len(n.args) == 1 \
                        and _pure_expr(f.value) and _pure_expr(n.args[0]) and isinstance(
                            f.value, (ast.Subscript, ast.Attribute)):
                    n = ast.copy_location(ast.Call(func=f, args=[n.args[0], ast.Constant(value=None)], keywords=[]), n)
                if isinstance(f, ast.Attribute) and not n.keywords and len(n.args) == 2 \
                        and _pure_expr(f.value) and _pure_expr(n.args[0]):
                    D, k, v = f.value, n.args[0], n.args[1]
                    sub = ast.copy_location(ast.Subscript(value=copy.deepcopy(D), slice=copy.deepcopy(k),
                                                          ctx=ast.Load()), n)
                    if f.attr == 'setdefault' and _pure_expr(v):
                        tgt = ast.Subscript(value=copy.deepcopy(D), slice=copy.deepcopy(k), ctx=ast.Store())
                        test = ast.Compare(left=copy.deepcopy(k), ops=[ast.NotIn()], comparators=[copy.deepcopy(D)])
                        pre.append(ast.copy_location(ast.If(
                            test=test, body=[ast.copy_location(ast.Assign(targets=[tgt], value=v, type_comment=None), n)],
                            orelse=[]), n))
                        return sub
                    if f.attr == 'get' and (isinstance(v, ast.Constant) or (
                            isinstance(v, (ast.List, ast.Tuple)) and not v.elts) or (
                            isinstance(v, ast.Dict) and not v.keys) or _pure_expr(v)):
                        test = ast.Compare(left=copy.deepcopy(k), ops=[ast.In()], comparators=[copy.deepcopy(D)])
                        return ast.copy_location(ast.IfExp(test=test, body=sub, orelse=v), n)
                return n
        new = T().visit(node)
        if isinstance(new, ast.Expr) and isinstance(new.value, ast.Subscript) and pre:
            return pre
        return pre + [new] if pre else new

    def visit_Assign(self, node):
        return self._rewrite(node)

    def visit_AugAssign(self, node):
        return self._rewrite(node)

    def visit_Expr(self, node):
        return self._rewrite(node)

    def visit_Return(self, node):
        return self._rewrite(node) if node.value is not None else node

    def visit_Lambda(self, node):
        return node


# --------------------------------------------------------------------------- N2
class _Subst(ast.NodeTransformer):
    def __init__(self, mapping):
        self.mapping = mapping

    def visit_Name(self, node):
        if isinstance(node.ctx, ast.Load) and node.id in self.mapping:
            return ast.copy_location(copy.deepcopy(self.mapping[node.id]), node)
        return node

    def visit_Lambda(self, node):
        return node


def _simple_elt(e):
    if isinstance(e, (ast.Name, ast.Constant)):
        return True
    if isinstance(e, ast.Attribute):
        return _simple_elt(e.value)
    if isinstance(e, ast.Subscript):
        return _simple_elt(e.value) and _simple_elt(e.slice)
    return False


class _ContinueToBreak(ast.NodeTransformer):
    """inside one unrolled copy: `continue` of the unrolled loop ends the copy"""

    def visit_Continue(self, node):
        return ast.copy_location(ast.Break(), node)

    def visit_For(self, node):
        return node          # continue/break inside belong to the inner loop

    def visit_While(self, node):
        return node

    def visit_FunctionDef(self, node):
        return node

    def visit_Lambda(self, node):
        return node


def _own_jumps(body, kind):
    """Break/Continue statements of `body` that belong to the loop owning `body`"""
    out = []

    def rec(n):
        for c in ast.iter_child_nodes(n):
            if isinstance(c, (ast.For, ast.While, ast.AsyncFor, ast.FunctionDef, ast.AsyncFunctionDef,
                              ast.Lambda, ast.ClassDef)):
                continue
            if isinstance(c, kind):
                out.append(c)
            rec(c)
    for s in body:
        if isinstance(s, kind):
            out.append(s)
        if not isinstance(s, (ast.For, ast.While, ast.AsyncFor)):
            rec(s)
    return out


class _Unroll(ast.NodeTransformer):
    def __init__(self):
        self.literals = {}      # per function: name -> tuple/list literal (single assignment)

    def visit_FunctionDef(self, node):
        saved = self.literals
        stores = {}
        for n in _walk_no_nested(node):
            if isinstance(n, ast.Name) and isinstance(n.ctx, (ast.Store, ast.Del)):
                stores[n.id] = stores.get(n.id, 0) + 1
        self.literals = {}
        for n in _walk_no_nested(node):
            if isinstance(n, ast.Assign) and len(n.targets) == 1 and isinstance(n.targets[0], ast.Name) and \
                    isinstance(n.value, (ast.Tuple, ast.List)) and stores.get(n.targets[0].id) == 1 and \
                    0 < len(n.value.elts) <= MAX_UNROLL and all(
                        _simple_elt(e) or (isinstance(e, (ast.Tuple, ast.List)) and all(_simple_elt(x) for x in e.elts))
                        for e in n.value.elts):
                nm = n.targets[0].id
                # a list that is changed after its creation is not the literal any more
                if any(isinstance(x, ast.Attribute) and isinstance(x.value, ast.Name) and x.value.id == nm
                       and x.attr in ('append', 'extend', 'insert', 'remove', 'pop', 'clear', 'sort', 'reverse')
                       for x in _walk_no_nested(node)) or any(
                        isinstance(x, (ast.Subscript,)) and isinstance(x.ctx, (ast.Store, ast.Del)) and isinstance(
                            x.value, ast.Name) and x.value.id == nm for x in _walk_no_nested(node)) or any(
                        isinstance(x, ast.AugAssign) and isinstance(x.target, ast.Name) and x.target.id == nm
                        for x in _walk_no_nested(node)):
                    continue
                self.literals[nm] = n.value
        self.generic_visit(node)
        self.literals = saved
        return node

    def _bindings(self, target, it):
        """[{loop variable: element expr}] for iterating a short literal (or a local naming
        one) with a name / tuple-of-names target; None when not of that shape"""
        if isinstance(it, ast.Name) and it.id in self.literals:
            it = self.literals[it.id]
        if not (isinstance(it, (ast.Tuple, ast.List)) and 0 < len(it.elts) <= MAX_UNROLL):
            return None
        out = []

        def ok_elt(x):
            # a lambda display or a pure reader of a simple operand is as harmless to evaluate
            # (again) as a name
            return _simple_elt(x) or isinstance(x, ast.Lambda) or (
                isinstance(x, ast.Call) and isinstance(x.func, ast.Name) and x.func.id in ('len', 'int', 'str', 'float')
                and len(x.args) == 1 and not x.keywords and _simple_elt(x.args[0]))
        for e in it.elts:
            if isinstance(target, ast.Name) and ok_elt(e):
                out.append({target.id: e})
            elif isinstance(target, (ast.Tuple, ast.List)) and isinstance(e, (ast.Tuple, ast.List)) and \
                    len(e.elts) == len(target.elts) and all(isinstance(t, ast.Name) for t in target.elts) and \
                    all(ok_elt(x) for x in e.elts):
                out.append({t.id: x for t, x in zip(target.elts, e.elts)})
            else:
                return None
        return out

    def _comp_items(self, comp, parts):
        """the elements a comprehension over a short literal spells out"""
        if len(comp.generators) != 1:
            return None
        g = comp.generators[0]
        if g.ifs or g.is_async:
            return None
        binds = self._bindings(g.target, g.iter)
        if binds is None:
            return None
        return [[_Subst(b).visit(copy.deepcopy(x)) for x in parts] for b in binds]

    def visit_Call(self, node):
        fn = node.func
        if isinstance(fn, ast.Name) and fn.id in ('all', 'any', 'sum', 'list', 'tuple', 'min', 'max') and len(node.args) == 1 \
                and not node.keywords and isinstance(node.args[0], (ast.GeneratorExp, ast.ListComp)):
            items = self._comp_items(node.args[0], [node.args[0].elt])
            if items is not None:
                elts = [self.visit(i[0]) for i in items]
                if fn.id in ('all', 'any'):
                    new = elts[0] if len(elts) == 1 else ast.BoolOp(
                        op=ast.And() if fn.id == 'all' else ast.Or(), values=elts)
                elif fn.id == 'sum':
                    new = elts[0]
                    for x in elts[1:]:
                        new = ast.BinOp(left=new, op=ast.Add(), right=x)
                elif fn.id in ('min', 'max'):
                    new = elts[0] if len(elts) == 1 else ast.Call(func=ast.Name(id=fn.id, ctx=ast.Load()), args=elts, keywords=[])
                else:
                    new = ast.List(elts=elts, ctx=ast.Load()) if fn.id == 'list' else ast.Tuple(elts=elts, ctx=ast.Load())
                return ast.copy_location(new, node)
        if isinstance(fn, ast.Name) and fn.id in ('all', 'any') and len(node.args) == 1 and not node.keywords:
            lit = node.args[0]
            if isinstance(lit, ast.Name) and lit.id in self.literals:
                lit = self.literals[lit.id]
            if isinstance(lit, (ast.Tuple, ast.List)) and 0 < len(lit.elts) <= MAX_UNROLL and all(
                    _simple_elt(x) for x in lit.elts):
                elts = [copy.deepcopy(x) for x in lit.elts]
                new = elts[0] if len(elts) == 1 else ast.BoolOp(
                    op=ast.And() if fn.id == 'all' else ast.Or(), values=elts)
                return ast.copy_location(new, node)
        self.generic_visit(node)
        return node

    def visit_Starred(self, node):
        # *(E for x in (a, b))  ->  *(E[a], E[b])
        self.generic_visit(node)
        v = node.value
        if isinstance(v, (ast.GeneratorExp, ast.ListComp)):
            items = self._comp_items(v, [v.elt])
            if items is not None:
                node.value = ast.copy_location(ast.Tuple(elts=[i[0] for i in items], ctx=ast.Load()), v)
        return node

    def _split_first(self, node):
        """[E for a in (x, y) for b in f(a)]  ->  [E[a:=x] for b in f(x)] + [E[a:=y] for b in f(y)]"""
        if len(node.generators) < 2 or isinstance(node, ast.DictComp):
            return None
        g = node.generators[0]
        if g.ifs or g.is_async:
            return None
        binds = self._bindings(g.target, g.iter)
        if binds is None:
            return None
        parts = []
        for b in binds:
            rest = [_Subst(b).visit(copy.deepcopy(x)) for x in node.generators[1:]]
            parts.append(ast.copy_location(ast.ListComp(elt=_Subst(b).visit(copy.deepcopy(node.elt)),
                                                        generators=rest), node))
        out = parts[0]
        for x in parts[1:]:
            out = ast.copy_location(ast.BinOp(left=out, op=ast.Add(), right=x), node)
        return out

    def visit_ListComp(self, node):
        sp = self._split_first(node)
        if sp is not None:
            return self.visit(sp) if isinstance(sp, ast.ListComp) else self.generic_visit(sp) or sp
        items = self._comp_items(node, [node.elt])
        if items is None:
            self.generic_visit(node)
            return node
        return ast.copy_location(ast.List(elts=[self.visit(i[0]) for i in items], ctx=ast.Load()), node)

    def visit_GeneratorExp(self, node):
        items = self._comp_items(node, [node.elt])
        if items is None:
            self.generic_visit(node)
            return node
        return ast.copy_location(ast.Tuple(elts=[self.visit(i[0]) for i in items], ctx=ast.Load()), node)

    def visit_DictComp(self, node):
        items = self._comp_items(node, [node.key, node.value])
        if items is None:
            self.generic_visit(node)
            return node
        return ast.copy_location(ast.Dict(keys=[self.visit(i[0]) for i in items],
                                          values=[self.visit(i[1]) for i in items]), node)

    def visit_For(self, node):
        self.generic_visit(node)
        binds = self._bindings(node.target, node.iter) if not node.orelse else None
        if binds is not None:
            names = set().union(*[set(b) for b in binds])
            body_nodes = [n for s in node.body for n in ast.walk(s)]
            if any(isinstance(n, ast.Name) and n.id in names and isinstance(n.ctx, (ast.Store, ast.Del))
                   for n in body_nodes):
                return node
            if _own_jumps(node.body, ast.Break):
                return node
            has_continue = bool(_own_jumps(node.body, ast.Continue))
            out = []
            for b in binds:
                copy_body = [_Subst(b).visit(copy.deepcopy(s)) for s in node.body]
                if has_continue:
                    copy_body = [x for s in copy_body for x in (lambda r: r if isinstance(r, list) else [r])(
                        _ContinueToBreak().visit(s))]
                    copy_body.append(ast.copy_location(ast.Break(), node))
                    out.append(ast.copy_location(ast.While(test=ast.Constant(value=True), body=copy_body,
                                                           orelse=[]), node))
                else:
                    out.extend(copy_body)
            return out
        return node

    def visit_Lambda(self, node):
        return node


# --------------------------------------------------------------------------- N3
class _Rename(ast.NodeTransformer):
    def __init__(self, mapping):
        self.mapping = mapping      # old local name -> new name

    def visit_Name(self, node):
        if node.id in self.mapping:
            return ast.copy_location(ast.Name(id=self.mapping[node.id], ctx=node.ctx), node)
        return node

    def visit_Lambda(self, node):
        return node


def _assigned_locals(fn):
    out = set()
    for n in _walk_no_nested(fn):
        if isinstance(n, ast.Name) and isinstance(n.ctx, (ast.Store, ast.Del)):
            out.add(n.id)
        elif isinstance(n, ast.ExceptHandler) and n.name:
            out.add(n.name)
    return out


def _bind(helper, call):
    """param -> arg expression (None when the call shape is not supported)"""
    a = helper.args
    if a.vararg or a.kwarg or a.posonlyargs:
        return None
    params = [x.arg for x in a.args]
    static = any(isinstance(d, ast.Name) and d.id == 'staticmethod' for d in helper.decorator_list)
    binding = {}
    if any(isinstance(d, ast.Name) and d.id == 'classmethod' for d in helper.decorator_list):
        params = params[1:]           # cls: unused in the body (checked by eligible)
    elif not static and not getattr(helper, '_module_level', False):
        if params and isinstance(call.func, ast.Attribute) and not (
                isinstance(call.func.value, ast.Name) and call.func.value.id == 'self'):
            binding[params[0]] = call.func.value       # self := the receiver
        params = params[1:]
    if any(isinstance(x, ast.Starred) for x in call.args) or any(k.arg is None for k in call.keywords):
        return None
    if len(call.args) > len(params):
        return None
    for p, v in zip(params, call.args):
        binding[p] = v
    names = params + [x.arg for x in a.kwonlyargs]
    for k in call.keywords:
        if k.arg not in names or k.arg in binding:
            return None
        binding[k.arg] = k.value
    defaults = dict(zip([x.arg for x in a.args][len(a.args) - len(a.defaults):], a.defaults))
    for kw, d in zip(a.kwonlyargs, a.kw_defaults):
        if d is not None:
            defaults[kw.arg] = d
    for p in names:
        if p not in binding:
            if p in defaults:
                binding[p] = defaults[p]
            else:
                return None
    return binding


class Inliner:
    def __init__(self, classes, no_inline):
        self.classes = classes            # name -> ast.ClassDef (with bases resolved by name)
        self.no_inline = no_inline
        self.inlined_calls = {}           # helper qual -> count
        self.kept_calls = {}
        self.module_funcs = {}            # private module-level functions of this module
        self.local_funcs = {}             # closures (nested def / lambda) of the function being normalised
        self.fresh = {}                   # methods that are new w.r.t. the recorded tree: name -> (ClassDef, def)
        self.fresh_props = {}             # the same for @property definitions

    def helper(self, cls_chain, name):
        for c in cls_chain:
            for b in c.body:
                if isinstance(b, ast.FunctionDef) and b.name == name:
                    return c, b
        return None, None

    def module_helper(self, name):
        return self.module_funcs.get(name)

    def eligible(self, h, name, caller, allow_generator=False):
        if h is None or h is caller:
            return False
        if name in self.no_inline and not getattr(h, '_closure', False):
            return False
        is_fresh = name in self.fresh and self.fresh[name][1] is h
        if not getattr(h, '_closure', False) and not is_fresh and not getattr(h, '_fresh_func', False) and (
                not name.startswith('_') or name.startswith('__')):
            return False
        if (_contains_yield(h) and not allow_generator) or len(list(_walk_no_nested(h))) > 800:
            return False
        n_stmts = sum(1 for n in _walk_no_nested(h) if isinstance(n, ast.stmt))
        if n_stmts > MAX_HELPER_STMTS:
            return False
        if any(d for d in h.decorator_list if not (isinstance(d, ast.Name) and d.id in ('staticmethod', 'classmethod'))):
            return False
        if any(isinstance(d, ast.Name) and d.id == 'classmethod' for d in h.decorator_list) and h.args.args and any(
                isinstance(n, ast.Name) and n.id == h.args.args[0].arg for n in _walk_no_nested(h)):
            return False        # a class method that still uses its class (class constants are folded before)
        # direct recursion
        for n in _walk_no_nested(h):
            if isinstance(n, ast.Call) and isinstance(n.func, ast.Attribute) and n.func.attr == name:
                return False
        return True

    @staticmethod
    def _self_call(e):
        return isinstance(e, ast.Call) and isinstance(e.func, ast.Attribute) and isinstance(
            e.func.value, ast.Name) and e.func.value.id in ('self',)

    def lookup(self, chain, call):
        """(owner, helper def, name) for a call that may be inlined, else (None, None, None)"""
        if self._self_call(call):
            o, h = self.helper(chain, call.func.attr)
            return o, h, call.func.attr
        if isinstance(call, ast.Call) and isinstance(call.func, ast.Attribute) and call.func.attr in self.fresh \
                and _simple_elt(call.func.value):
            # a method that did not exist in the recorded tree (an extracted block), called on any
            # receiver: its body is judged at the call, with `self` standing for the receiver
            o, h = self.fresh[call.func.attr]
            return o, h, call.func.attr
        if isinstance(call, ast.Call) and isinstance(call.func, ast.Name) and call.func.id in self.local_funcs:
            return None, self.local_funcs[call.func.id], call.func.id
        if isinstance(call, ast.Call) and isinstance(call.func, ast.Name) and call.func.id in self.module_funcs:
            h = self.module_funcs[call.func.id]
            return None, h, call.func.id
        return None, None, None

    def pure_expr(self, h, binding):
        """for helpers that are straight-line local assignments + return <expr>: that expression
        with locals and parameters substituted; else None"""
        env = dict(binding)
        body = [s for s in h.body if not _is_docstring(s) and not _is_logging(s)]
        # search loop:  for x in S: if C: return K / return not K   is   any/all over S
        if len(body) == 2 and isinstance(body[0], ast.For) and not body[0].orelse and isinstance(body[0].target, ast.Name) \
                and isinstance(body[1], ast.Return) and isinstance(body[1].value, ast.Constant) \
                and isinstance(body[1].value.value, bool):
            inner = [s for s in body[0].body if not _is_logging(s)]
            if len(inner) == 1 and isinstance(inner[0], ast.If) and not inner[0].orelse and len(inner[0].body) == 1 \
                    and isinstance(inner[0].body[0], ast.Return) and isinstance(inner[0].body[0].value, ast.Constant) \
                    and inner[0].body[0].value.value is (not body[1].value.value):
                k1 = inner[0].body[0].value.value
                c = inner[0].test
                if not k1:
                    c = c.operand if isinstance(c, ast.UnaryOp) and isinstance(c.op, ast.Not) else ast.UnaryOp(
                        op=ast.Not(), operand=c)
                g = ast.GeneratorExp(elt=copy.deepcopy(c), generators=[ast.comprehension(
                    target=copy.deepcopy(body[0].target), iter=copy.deepcopy(body[0].iter), ifs=[], is_async=0)])
                e = ast.Call(func=ast.Name(id='any' if k1 else 'all', ctx=ast.Load()), args=[g], keywords=[])
                ast.copy_location(e, body[0])
                ast.fix_missing_locations(e)
                sub = {k: v for k, v in env.items() if k != body[0].target.id}
                return _Subst(sub).visit(e)

        def as_expr(st):
            # `if c: return A else: return B` (possibly nested) is the expression A if c else B
            if isinstance(st, ast.Return) and st.value is not None:
                return st.value
            if isinstance(st, ast.If) and len(st.body) == 1 and len(st.orelse) == 1:
                a, b = as_expr(st.body[0]), as_expr(st.orelse[0])
                if a is not None and b is not None:
                    return ast.copy_location(ast.IfExp(test=st.test, body=a, orelse=b), st)
            return None
        while len(body) >= 2 and isinstance(body[-2], ast.If) and not body[-2].orelse and as_expr(body[-1]) is not None:
            # guard clause: if c: return A ; <rest that returns B>
            g = body[-2]
            if len(g.body) == 1 and isinstance(g.body[0], ast.Return) and g.body[0].value is not None:
                body = body[:-2] + [ast.copy_location(ast.If(test=g.test, body=g.body, orelse=[body[-1]]), g)]
            else:
                break
        if body and isinstance(body[-1], ast.If):
            e = as_expr(body[-1])
            if e is not None:
                body = body[:-1] + [ast.copy_location(ast.Return(value=e), body[-1])]
        if not body or not isinstance(body[-1], ast.Return) or body[-1].value is None:
            return None
        for s in body[:-1]:
            if isinstance(s, ast.Assign) and len(s.targets) == 1 and isinstance(s.targets[0], ast.Name):
                env[s.targets[0].id] = _Subst(env).visit(copy.deepcopy(s.value))
            else:
                return None
        e = _Subst(env).visit(copy.deepcopy(body[-1].value))
        return e

    def stmts(self, h, binding, target, at):
        """helper body as statements assigning its result to `target` (ast expr list or None)"""
        locs = _assigned_locals(h) - set(binding)
        ren = {l: _fresh(l) for l in locs}
        pre = []
        sub = {}
        for p, v in binding.items():
            if _simple_elt(v) and p not in _assigned_locals(h):
                sub[p] = v
            else:
                nm = _fresh(p)
                pre.append(ast.copy_location(ast.Assign(targets=[ast.Name(id=nm, ctx=ast.Store())],
                                                        value=copy.deepcopy(v), type_comment=None), at))
                ren[p] = nm
        body = [copy.deepcopy(s) for s in h.body if not _is_docstring(s)]
        body = [_Subst(sub).visit(_Rename(ren).visit(s)) for s in body]
        rets = [n for s in body for n in _walk_no_nested(s) if isinstance(n, ast.Return)]
        single_tail = len(rets) == 1 and body and body[-1] is rets[0]
        no_ret = not rets

        def ret_to(node):
            out = []
            if target is not None and node.value is not None:
                out.append(ast.copy_location(ast.Assign(targets=copy.deepcopy(target), value=node.value,
                                                        type_comment=None), node))
            elif target is not None:
                out.append(ast.copy_location(ast.Assign(targets=copy.deepcopy(target),
                                                        value=ast.Constant(value=None), type_comment=None), node))
            elif node.value is not None and any(isinstance(x, ast.Call) for x in ast.walk(node.value)):
                out.append(ast.copy_location(ast.Expr(value=node.value), node))
            return out
        if single_tail:
            body = body[:-1] + ret_to(rets[0])
            return pre + (body or [ast.copy_location(ast.Pass(), at)])
        if no_ret:
            if target is not None:
                body.append(ast.copy_location(ast.Assign(targets=copy.deepcopy(target),
                                                         value=ast.Constant(value=None), type_comment=None), at))
            return pre + (body or [ast.copy_location(ast.Pass(), at)])

        def has_ret(ss):
            return any(isinstance(n, ast.Return) for x in ss for n in _walk_no_nested(x))

        def terminates(ss):
            if not ss:
                return False
            t = ss[-1]
            if isinstance(t, (ast.Return, ast.Raise)):
                return True
            return isinstance(t, ast.If) and terminates(t.body) and terminates(t.orelse)

        def lower(ss):
            """guard clauses -> structured if/else (None: not of that shape)"""
            out = []
            for i, st in enumerate(ss):
                if isinstance(st, ast.Return):
                    return out + ret_to(st)
                if isinstance(st, ast.Raise):
                    return out + [st]
                if not has_ret([st]):
                    out.append(st)
                    continue
                if not isinstance(st, ast.If):
                    return None
                bt, ot = terminates(st.body), terminates(st.orelse)
                rest = ss[i + 1:]
                if bt and ot:
                    b, o = lower(st.body), lower(st.orelse)
                elif bt and not has_ret(st.orelse):
                    b, o = lower(st.body), lower(st.orelse + rest)
                elif ot and not has_ret(st.body):
                    b, o = lower(st.body + rest), lower(st.orelse)
                else:
                    return None
                if b is None or o is None:
                    return None
                out.append(ast.copy_location(ast.If(test=st.test, body=b or [ast.copy_location(ast.Pass(), st)],
                                                    orelse=o), st))
                return out
            if target is not None:
                out.append(ast.copy_location(ast.Assign(targets=copy.deepcopy(target),
                                                        value=ast.Constant(value=None), type_comment=None), at))
            return out
        low = lower(body)
        if low is not None:
            return pre + (low or [ast.copy_location(ast.Pass(), at)])

        class R(ast.NodeTransformer):
            def visit_Return(self, node):
                return ret_to(node) + [ast.copy_location(ast.Break(), node)]

            def visit_FunctionDef(self, node):
                return node

            def visit_Lambda(self, node):
                return node
        # a return inside a loop of the helper would only break that loop: not supported
        for s in body:
            for n in _walk_no_nested(s):
                if isinstance(n, (ast.For, ast.While)) and any(isinstance(x, ast.Return) for x in ast.walk(n)):
                    return None
        body = [x for s in body for x in (lambda r: r if isinstance(r, list) else [r])(R().visit(s))]
        if target is not None:
            body.append(ast.copy_location(ast.Assign(targets=copy.deepcopy(target), value=ast.Constant(value=None),
                                                     type_comment=None), at))
        body.append(ast.copy_location(ast.Break(), at))
        loop = ast.copy_location(ast.While(test=ast.Constant(value=True), body=body, orelse=[]), at)
        return pre + [loop]


class _InlineStmts(ast.NodeTransformer):
    def __init__(self, inl, chain, caller, qual_of):
        self.inl = inl
        self.chain = chain
        self.caller = caller
        self.qual_of = qual_of
        self.changed = False

    def _try(self, call, target, at, allow_generator=False):
        owner, h, hname = self.inl.lookup(self.chain, call)
        if h is None:
            return None
        if not self.inl.eligible(h, hname, self.caller, allow_generator):
            return None
        b = _bind(h, call)
        if b is None:
            return None
        out = self.inl.stmts(h, b, target, at)
        if out is None:
            return None
        q = self.qual_of(owner, h)
        self.inl.inlined_calls[q] = self.inl.inlined_calls.get(q, 0) + 1
        self.changed = True
        return out

    def _hoist(self, node):
        """nested calls of inlinable helpers inside a simple statement are computed into a
        temporary first (the sub-expressions evaluated before them are plain reads)"""
        top = getattr(node, 'value', None)
        pre = []
        me = self

        class H(ast.NodeTransformer):
            def visit_Lambda(self, n):
                return n
            visit_ListComp = visit_SetComp = visit_DictComp = visit_GeneratorExp = visit_Lambda
            visit_IfExp = visit_BoolOp = visit_Lambda

            def visit_Call(self, n):
                self.generic_visit(n)
                if n is top or (isinstance(top, ast.YieldFrom) and n is top.value):
                    return n
                owner, h, hname = me.inl.lookup(me.chain, n)
                if h is None or not me.inl.eligible(h, hname, me.caller):
                    return n
                b = _bind(h, n)
                if b is None or me.inl.pure_expr(h, b) is not None:
                    return n
                tmp = _fresh('val')
                r = me._try(n, [ast.Name(id=tmp, ctx=ast.Store())], node)
                if r is None:
                    return n
                pre.extend(r)
                return ast.copy_location(ast.Name(id=tmp, ctx=ast.Load()), n)
        H().visit(node)
        return pre

    def visit_AugAssign(self, node):
        pre = self._hoist(node)
        return pre + [node] if pre else node

    def visit_Expr(self, node):
        pre = self._hoist(node)
        if pre:
            return pre + [node]
        if isinstance(node.value, ast.Call):
            r = self._try(node.value, None, node)
            if r is not None:
                return r
        # yield from self._part(...)  : a generator split into parts
        if isinstance(node.value, ast.YieldFrom) and isinstance(node.value.value, ast.Call):
            r = self._try(node.value.value, None, node, allow_generator=True)
            if r is not None:
                return r
        return node

    def _has_stmt_helper(self, e):
        for n in ast.walk(e):
            if isinstance(n, ast.Call):
                owner, h, hname = self.inl.lookup(self.chain, n)
                if h is not None and self.inl.eligible(h, hname, self.caller):
                    b = _bind(h, n)
                    if b is not None and self.inl.pure_expr(h, b) is None:
                        return True
        return False

    def visit_Assign(self, node):
        # x = a and self._do(...)  : the helper runs only when a holds -- spelled out as
        # x = a; if x: x = self._do(...)   (or: if not x) so that the helper can be inlined
        v0 = node.value
        if isinstance(v0, ast.BoolOp) and len(node.targets) == 1 and isinstance(node.targets[0], ast.Name) \
                and any(self._has_stmt_helper(x) for x in v0.values[1:]) and not any(
                    isinstance(n, ast.Name) and n.id == node.targets[0].id for n in ast.walk(v0)):
            t = node.targets[0].id
            out = [ast.copy_location(ast.Assign(targets=[ast.Name(id=t, ctx=ast.Store())], value=v0.values[0],
                                                type_comment=None), node)]
            for x in v0.values[1:]:
                test = ast.Name(id=t, ctx=ast.Load())
                if isinstance(v0.op, ast.Or):
                    test = ast.UnaryOp(op=ast.Not(), operand=test)
                out.append(ast.copy_location(ast.If(test=test, body=[ast.copy_location(ast.Assign(
                    targets=[ast.Name(id=t, ctx=ast.Store())], value=x, type_comment=None), node)], orelse=[]), node))
            res = []
            for st in out:
                ast.fix_missing_locations(st)
                r = self.visit(st)
                res += r if isinstance(r, list) else [r]
            self.changed = True
            return res
        pre = self._hoist(node)
        if pre:
            r = self.visit_Assign(node)
            return pre + (r if isinstance(r, list) else [r])
        if isinstance(node.value, ast.Call):
            r = self._try(node.value, node.targets, node)
            if r is not None:
                return r
        if isinstance(node.value, ast.YieldFrom) and isinstance(node.value.value, ast.Call):
            r = self._try(node.value.value, node.targets, node, allow_generator=True)
            if r is not None:
                return r
        # x = [self._h(v) for v in I]
        v = node.value
        if isinstance(v, ast.ListComp) and len(v.generators) == 1 and not v.generators[0].ifs and \
                Inliner._self_call(v.elt) and len(node.targets) == 1 and isinstance(node.targets[0], ast.Name):
            owner, h = self.inl.helper(self.chain, v.elt.func.attr)
            if self.inl.eligible(h, v.elt.func.attr, self.caller):
                b = _bind(h, v.elt)
                if b is not None and self.inl.pure_expr(h, b) is None:
                    tmp = _fresh('item')
                    body = self.inl.stmts(h, b, [ast.Name(id=tmp, ctx=ast.Store())], node)
                    if body is not None:
                        acc = node.targets[0].id
                        init = ast.copy_location(ast.Assign(targets=[ast.Name(id=acc, ctx=ast.Store())],
                                                            value=ast.List(elts=[], ctx=ast.Load()),
                                                            type_comment=None), node)
                        app = ast.copy_location(ast.Expr(value=ast.Call(
                            func=ast.Attribute(value=ast.Name(id=acc, ctx=ast.Load()), attr='append', ctx=ast.Load()),
                            args=[ast.Name(id=tmp, ctx=ast.Load())], keywords=[])), node)
                        loop = ast.copy_location(ast.For(target=copy.deepcopy(v.generators[0].target),
                                                         iter=copy.deepcopy(v.generators[0].iter),
                                                         body=body + [app], orelse=[], type_comment=None), node)
                        q = self.qual_of(owner, h)
                        self.inl.inlined_calls[q] = self.inl.inlined_calls.get(q, 0) + 1
                        self.changed = True
                        return [init, loop]
        return node

    def visit_If(self, node):
        # if [not] self._check(...):  with a helper that is not a plain expression -- computed into
        # a temporary first (it is the first thing the test evaluates)
        t = node.test
        neg = isinstance(t, ast.UnaryOp) and isinstance(t.op, ast.Not)
        call = t.operand if neg else t
        pre = []
        if isinstance(call, ast.Call) and self._has_stmt_helper(call) and not any(
                self._has_stmt_helper(a) for a in list(call.args) + [k.value for k in call.keywords]):
            tmp = _fresh('cond')
            r = self._try(call, [ast.Name(id=tmp, ctx=ast.Store())], node)
            if r is not None:
                pre = r
                nm = ast.copy_location(ast.Name(id=tmp, ctx=ast.Load()), t)
                node.test = ast.copy_location(ast.UnaryOp(op=ast.Not(), operand=nm), t) if neg else nm
        self.generic_visit(node)
        return pre + [node] if pre else node

    def visit_Return(self, node):
        if node.value is not None:
            pre = self._hoist(node)
            if pre:
                r = self.visit_Return(node)
                return pre + (r if isinstance(r, list) else [r])
        v = node.value
        if isinstance(v, ast.ListComp) and len(v.generators) == 1 and not v.generators[0].ifs and \
                Inliner._self_call(v.elt):
            tmp = _fresh('result')
            asg = ast.copy_location(ast.Assign(targets=[ast.Name(id=tmp, ctx=ast.Store())], value=v,
                                               type_comment=None), node)
            r = self.visit_Assign(asg)
            if isinstance(r, list):
                return r + [ast.copy_location(ast.Return(value=ast.Name(id=tmp, ctx=ast.Load())), node)]
            return node
        if isinstance(node.value, ast.Call):
            tmp = _fresh('ret')
            r = self._try(node.value, [ast.Name(id=tmp, ctx=ast.Store())], node)
            if r is not None:
                return r + [ast.copy_location(ast.Return(value=ast.Name(id=tmp, ctx=ast.Load())), node)]
        return node

    def visit_FunctionDef(self, node):
        if node is self.caller:
            self.generic_visit(node)
        return node

    def visit_Lambda(self, node):
        return node


class _InlineExprs(ast.NodeTransformer):
    def __init__(self, inl, chain, caller, qual_of):
        self.inl = inl
        self.chain = chain
        self.caller = caller
        self.qual_of = qual_of
        self.changed = False

    def visit_Attribute(self, node):
        # self.<prop> where <prop> is a straight-line @property of the class: its expression
        self.generic_visit(node)
        if isinstance(node.ctx, ast.Load) and isinstance(node.value, ast.Name) and node.value.id == 'self':
            owner, h = self.inl.helper(self.chain, node.attr)
            if h is not None and any(isinstance(d, ast.Name) and d.id == 'property' for d in h.decorator_list) \
                    and h is not self.caller and node.attr not in self.inl.no_inline:
                e = self.inl.pure_expr(h, {})
                if e is not None:
                    self.changed = True
                    q = self.qual_of(owner, h)
                    self.inl.inlined_calls[q] = self.inl.inlined_calls.get(q, 0) + 1
                    return ast.copy_location(e, node)
        elif isinstance(node.ctx, ast.Load) and node.attr in self.inl.fresh_props and _simple_elt(node.value):
            owner, h = self.inl.fresh_props[node.attr]
            if h is not self.caller and h.args.args:
                e = self.inl.pure_expr(h, {h.args.args[0].arg: node.value})
                if e is not None:
                    self.changed = True
                    q = self.qual_of(owner, h)
                    self.inl.inlined_calls[q] = self.inl.inlined_calls.get(q, 0) + 1
                    return ast.copy_location(e, node)
        return node

    def visit_Call(self, node):
        self.generic_visit(node)
        owner, h, hname = self.inl.lookup(self.chain, node)
        if h is not None:
            if self.inl.eligible(h, hname, self.caller):
                b = _bind(h, node)
                if b is not None:
                    e = self.inl.pure_expr(h, b)
                    if e is not None:
                        q = self.qual_of(owner, h)
                        self.inl.inlined_calls[q] = self.inl.inlined_calls.get(q, 0) + 1
                        self.changed = True
                        return ast.copy_location(e, node)
        return node

    def visit_FunctionDef(self, node):
        if node is self.caller:
            self.generic_visit(node)
        return node

    def visit_Lambda(self, node):
        return node


class _FoldConst(ast.NodeTransformer):
    """N6: `if <literal>:` left behind by inlining a helper called with a literal flag
    is replaced by the branch taken."""

    @staticmethod
    def _value(t):
        if isinstance(t, ast.Constant) and isinstance(t.value, (bool, int, str, type(None))):
            return True, bool(t.value)
        if isinstance(t, ast.UnaryOp) and isinstance(t.op, ast.Not):
            k, v = _FoldConst._value(t.operand)
            if k:
                return True, not v
        return False, None

    def visit_If(self, node):
        self.generic_visit(node)
        k, v = self._value(node.test)
        if not k:
            return node
        body = node.body if v else node.orelse
        return body or [ast.copy_location(ast.Pass(), node)]

    def visit_Lambda(self, node):
        return node


def _forward_process_temps(fn):
    """N5: `g = obj.method(args)` used exactly once, as the argument of `<env>.process(g)`,
    is substituted there (a spawn written through a temporary)."""
    loads = {}
    stores = {}
    for n in _walk_no_nested(fn):
        if isinstance(n, ast.Name):
            (loads if isinstance(n.ctx, ast.Load) else stores).setdefault(n.id, []).append(n)
    cands = {}
    for n in _walk_no_nested(fn):
        if isinstance(n, ast.Assign) and len(n.targets) == 1 and isinstance(n.targets[0], ast.Name) and \
                isinstance(n.value, ast.Call):
            nm = n.targets[0].id
            if len(stores.get(nm, [])) == 1 and len(loads.get(nm, [])) == 1:
                cands[nm] = n
    if not cands:
        return
    used = {}
    for n in _walk_no_nested(fn):
        if isinstance(n, ast.Call) and isinstance(n.func, ast.Attribute) and n.func.attr == 'process' and \
                len(n.args) == 1 and isinstance(n.args[0], ast.Name) and n.args[0].id in cands:
            used[n.args[0].id] = n
    if not used:
        return

    class T(ast.NodeTransformer):
        def visit_Assign(self, node):
            for nm, a in cands.items():
                if node is a and nm in used:
                    return None
            return node

        def visit_Call(self, node):
            self.generic_visit(node)
            for nm, c in used.items():
                if node is c:
                    node.args = [cands[nm].value]
            return node

        def visit_Lambda(self, node):
            return node
    T().visit(fn)
    for n in ast.walk(fn):
        if hasattr(n, 'body') and isinstance(n.body, list) and not n.body:
            n.body.append(ast.Pass())


def _forward_return_temps(fn):
    """N17: `x = E` immediately followed by `return x` (x bound and read nowhere else) is `return E`."""
    loads, stores = {}, {}
    for n in _walk_no_nested(fn):
        if isinstance(n, ast.Name):
            d = loads if isinstance(n.ctx, ast.Load) else stores
            d[n.id] = d.get(n.id, 0) + 1
    changed = [False]

    def block(stmts):
        i = 0
        while i < len(stmts):
            st = stmts[i]
            for field in ('body', 'orelse', 'finalbody'):
                sub = getattr(st, field, None)
                if isinstance(sub, list) and not isinstance(st, (ast.FunctionDef, ast.AsyncFunctionDef, ast.ClassDef)):
                    block(sub)
            for h in getattr(st, 'handlers', []) or []:
                block(h.body)
            if isinstance(st, ast.Assign) and len(st.targets) == 1 and isinstance(st.targets[0], ast.Name) \
                    and i + 1 < len(stmts) and isinstance(stmts[i + 1], ast.Return) and isinstance(
                        stmts[i + 1].value, ast.Name) and stmts[i + 1].value.id == st.targets[0].id \
                    and loads.get(st.targets[0].id, 0) == 1 and stores.get(st.targets[0].id, 0) == 1 \
                    and not any(isinstance(x, (ast.Yield, ast.YieldFrom)) for x in ast.walk(st.value)):
                stmts[i + 1].value = st.value
                del stmts[i]
                changed[0] = True
                continue
            i += 1
    block(fn.body)
    return changed[0]


def _is_plain_test(v):
    """a call, a comparison, or negations of one"""
    while isinstance(v, ast.UnaryOp) and isinstance(v.op, ast.Not):
        v = v.operand
    return isinstance(v, (ast.Call, ast.Compare))


def _forward_flags(fn):
    """N10: `ok = pred(...)` immediately followed by `if ok:` / `if not ok:` (ok used nowhere
    else): the call takes the flag's place in the test."""
    loads, stores = {}, {}
    for n in _walk_no_nested(fn):
        if isinstance(n, ast.Name):
            d = loads if isinstance(n.ctx, ast.Load) else stores
            d[n.id] = d.get(n.id, 0) + 1
    changed = [False]

    def block(stmts):
        i = 0
        while i < len(stmts):
            st = stmts[i]
            for field in ('body', 'orelse', 'finalbody'):
                sub = getattr(st, field, None)
                if isinstance(sub, list) and not isinstance(st, (ast.FunctionDef, ast.AsyncFunctionDef, ast.ClassDef)):
                    block(sub)
            for h in getattr(st, 'handlers', []) or []:
                block(h.body)
            if isinstance(st, ast.Assign) and len(st.targets) == 1 and isinstance(st.targets[0], ast.Name) \
                    and _is_plain_test(st.value) and i + 1 < len(stmts) and isinstance(stmts[i + 1], ast.If):
                x = st.targets[0].id
                nxt = stmts[i + 1]
                uses = [n for n in ast.walk(nxt.test) if isinstance(n, ast.Name) and n.id == x]
                if loads.get(x, 0) == 1 and stores.get(x, 0) == 1 and len(uses) == 1:
                    t = nxt.test
                    if t is uses[0]:
                        nxt.test = st.value
                    elif isinstance(t, ast.UnaryOp) and isinstance(t.op, ast.Not) and t.operand is uses[0]:
                        t.operand = st.value
                    elif isinstance(t, ast.BoolOp) and t.values and (t.values[0] is uses[0] or (
                            isinstance(t.values[0], ast.UnaryOp) and isinstance(t.values[0].op, ast.Not)
                            and t.values[0].operand is uses[0])):
                        # first operand: evaluated unconditionally, in the same place
                        if t.values[0] is uses[0]:
                            t.values[0] = st.value
                        else:
                            t.values[0].operand = st.value
                    else:
                        i += 1
                        continue
                    del stmts[i]
                    changed[0] = True
                    continue
            i += 1
    block(fn.body)
    return changed[0]


def _forward_loop_flags(fn):
    """N11: a loop driven by a flag that is recomputed by the same call before the loop and as
    the last statement of its body, and read nowhere but in the loop test:
        x = E; while T(x): B; x = E      ==      while T(E): B"""
    loads = {}
    for n in _walk_no_nested(fn):
        if isinstance(n, ast.Name) and isinstance(n.ctx, ast.Load):
            loads[n.id] = loads.get(n.id, 0) + 1
    changed = [False]

    def block(stmts):
        i = 0
        while i < len(stmts):
            st = stmts[i]
            for field in ('body', 'orelse', 'finalbody'):
                sub = getattr(st, field, None)
                if isinstance(sub, list) and not isinstance(st, (ast.FunctionDef, ast.AsyncFunctionDef, ast.ClassDef)):
                    block(sub)
            for h in getattr(st, 'handlers', []) or []:
                block(h.body)
            if isinstance(st, ast.While) and i > 0 and not st.orelse and st.body:
                pre, last = stmts[i - 1], st.body[-1]
                if isinstance(pre, ast.Assign) and isinstance(last, ast.Assign) and len(pre.targets) == 1 and \
                        len(last.targets) == 1 and isinstance(pre.targets[0], ast.Name) and isinstance(
                        last.targets[0], ast.Name) and pre.targets[0].id == last.targets[0].id and isinstance(
                        pre.value, ast.Call) and ast.dump(pre.value) == ast.dump(last.value):
                    x = pre.targets[0].id
                    uses = [n for n in ast.walk(st.test) if isinstance(n, ast.Name) and n.id == x]
                    others = [n for b in st.body[:-1] for n in ast.walk(b) if isinstance(n, ast.Name) and n.id == x]
                    if len(uses) == 1 and loads.get(x, 0) == 1 and not others and not _own_jumps(st.body, ast.Continue):
                        class R(ast.NodeTransformer):
                            def visit_Name(self, node):
                                return copy.deepcopy(pre.value) if node is uses[0] else node
                        st.test = R().visit(st.test)
                        st.body = st.body[:-1] or [ast.copy_location(ast.Pass(), st)]
                        del stmts[i - 1]
                        changed[0] = True
                        continue
            i += 1
    block(fn.body)
    return changed[0]


class _SplitTupleAssign(ast.NodeTransformer):
    """N7: a, b = x, y  ->  a = x; b = y   (through temporaries when a later value reads an
    earlier target)."""

    def visit_Assign(self, node):
        if len(node.targets) != 1:
            return node
        t, v = node.targets[0], node.value
        if not (isinstance(t, (ast.Tuple, ast.List)) and isinstance(v, (ast.Tuple, ast.List)) and
                len(t.elts) == len(v.elts) and len(t.elts) > 1 and
                all(isinstance(x, ast.Name) for x in t.elts) and
                not any(isinstance(x, ast.Starred) for x in v.elts)):
            return node
        names = [x.id for x in t.elts]
        if len(set(names)) != len(names):
            return node
        clash = False
        for j, val in enumerate(v.elts):
            used = {x.id for x in ast.walk(val) if isinstance(x, ast.Name)}
            if used & set(names[:j]):
                clash = True
        out = []
        if clash:
            tmps = [_fresh(n) for n in names]
            for tmp, val in zip(tmps, v.elts):
                out.append(ast.copy_location(ast.Assign(targets=[ast.Name(id=tmp, ctx=ast.Store())], value=val,
                                                        type_comment=None), node))
            for n, tmp in zip(names, tmps):
                out.append(ast.copy_location(ast.Assign(targets=[ast.Name(id=n, ctx=ast.Store())],
                                                        value=ast.Name(id=tmp, ctx=ast.Load()), type_comment=None), node))
        else:
            for n, val in zip(names, v.elts):
                out.append(ast.copy_location(ast.Assign(targets=[ast.Name(id=n, ctx=ast.Store())], value=val,
                                                        type_comment=None), node))
        return out

    def visit_Lambda(self, node):
        return node


def _closures(fn):
    """N9: local helper closures of `fn` -- nested defs and `name = lambda ...` bound exactly once.
    A call of a closure evaluates its body with the enclosing variables as they are at the call
    (late binding), which is what substituting the body at the call site does."""
    stores = {}
    for n in _walk_no_nested(fn):
        if isinstance(n, ast.Name) and isinstance(n.ctx, (ast.Store, ast.Del)):
            stores[n.id] = stores.get(n.id, 0) + 1
    out = {}

    def scan(stmts):
        for st in stmts:
            if isinstance(st, ast.FunctionDef) and not st.decorator_list:
                if stores.get(st.name, 0) == 0 and st.name not in out:
                    st._closure = True
                    st._module_level = True
                    out[st.name] = st
                else:
                    out[st.name] = None
            elif isinstance(st, ast.Assign) and len(st.targets) == 1 and isinstance(st.targets[0], ast.Name) \
                    and isinstance(st.value, ast.Lambda) and stores.get(st.targets[0].id) == 1:
                lam = st.value
                d = ast.FunctionDef(name=st.targets[0].id, args=lam.args,
                                    body=[ast.copy_location(ast.Return(value=lam.body), lam)],
                                    decorator_list=[], returns=None, type_comment=None)
                ast.copy_location(d, st)
                ast.fix_missing_locations(d)
                d._closure = True
                d._module_level = True
                out[d.name] = d
            for field in ('body', 'orelse', 'finalbody'):
                sub = getattr(st, field, None)
                if isinstance(sub, list) and not isinstance(st, (ast.FunctionDef, ast.AsyncFunctionDef, ast.ClassDef)):
                    scan(sub)
            for h in getattr(st, 'handlers', []) or []:
                scan(h.body)
    scan(fn.body)
    # the parameters of a closure must not shadow / be captured by names used at the call sites
    return {k: v for k, v in out.items() if v is not None}


def _scalarise_tuples(fn):
    """N14: a local that is only ever bound to tuple displays of one arity and only ever read as
    `t[<literal index>]` is that many locals: `t = (a, b)` -> `t__0 = a; t__1 = b`, `t[1]` -> `t__1`."""
    binds, other = {}, set()
    parent_sub = set()
    for n in _walk_no_nested(fn):
        if isinstance(n, ast.Subscript) and isinstance(n.value, ast.Name) and isinstance(n.ctx, ast.Load) and isinstance(
                n.slice, ast.Constant) and isinstance(n.slice.value, int) and not isinstance(n.slice.value, bool):
            parent_sub.add(id(n.value))
    for n in _walk_no_nested(fn):
        if isinstance(n, ast.Assign) and len(n.targets) == 1 and isinstance(n.targets[0], ast.Name) and isinstance(
                n.value, ast.Tuple) and not any(isinstance(x, ast.Starred) for x in n.value.elts):
            binds.setdefault(n.targets[0].id, []).append(n)
        elif isinstance(n, ast.Name):
            if isinstance(n.ctx, ast.Load):
                if id(n) not in parent_sub:
                    other.add(n.id)
            elif not (isinstance(n.ctx, ast.Store)):
                other.add(n.id)
    # stores other than the recorded tuple assignments
    stores = {}
    for n in _walk_no_nested(fn):
        if isinstance(n, ast.Name) and isinstance(n.ctx, ast.Store):
            stores[n.id] = stores.get(n.id, 0) + 1
    params = {a.arg for a in fn.args.args + fn.args.kwonlyargs}
    todo = {}
    for nm, asg in binds.items():
        ar = {len(a.value.elts) for a in asg}
        if nm in other or nm in params or len(ar) != 1 or stores.get(nm) != len(asg):
            continue
        k = next(iter(ar))
        idx_ok = True
        for n in _walk_no_nested(fn):
            if isinstance(n, ast.Subscript) and isinstance(n.value, ast.Name) and n.value.id == nm:
                if not (isinstance(n.slice, ast.Constant) and isinstance(n.slice.value, int) and -k <= n.slice.value < k):
                    idx_ok = False
        if idx_ok and k:
            todo[nm] = k
    if not todo:
        return False

    class T(ast.NodeTransformer):
        def visit_FunctionDef(self, node):
            if node is fn:
                self.generic_visit(node)
            return node

        def visit_Lambda(self, node):
            return node

        def visit_Assign(self, node):
            self.generic_visit(node)
            if len(node.targets) == 1 and isinstance(node.targets[0], ast.Name) and node.targets[0].id in todo \
                    and isinstance(node.value, ast.Tuple):
                nm = node.targets[0].id
                return [ast.copy_location(ast.Assign(targets=[ast.Name(id='%s__%d' % (nm, i), ctx=ast.Store())], value=v,
                                                     type_comment=None), node) for i, v in enumerate(node.value.elts)]
            return node

        def visit_Subscript(self, node):
            self.generic_visit(node)
            if isinstance(node.value, ast.Name) and node.value.id in todo and isinstance(node.ctx, ast.Load):
                k = todo[node.value.id]
                return ast.copy_location(ast.Name(id='%s__%d' % (node.value.id, node.slice.value % k), ctx=ast.Load()), node)
            return node
    T().visit(fn)
    ast.fix_missing_locations(fn)
    return True


def _fuse_comprehensions(fn):
    """N13: `xs = [T(a) for a in D]` used once, as the iterable of another comprehension
    `[F(x) for x in xs]`: the two are one comprehension `[F(T(a)) for a in D]` (the elements of
    the intermediate list are only read)."""
    loads, stores = {}, {}
    for n in _walk_no_nested(fn):
        if isinstance(n, ast.Name):
            d = loads if isinstance(n.ctx, ast.Load) else stores
            d[n.id] = d.get(n.id, 0) + 1
    changed = False

    def block(stmts):
        nonlocal changed
        i = 0
        while i < len(stmts):
            st = stmts[i]
            for field in ('body', 'orelse', 'finalbody'):
                sub = getattr(st, field, None)
                if isinstance(sub, list) and not isinstance(st, (ast.FunctionDef, ast.AsyncFunctionDef, ast.ClassDef)):
                    block(sub)
            for h in getattr(st, 'handlers', []) or []:
                block(h.body)
            if isinstance(st, ast.Assign) and len(st.targets) == 1 and isinstance(st.targets[0], ast.Name) \
                    and isinstance(st.value, (ast.ListComp, ast.GeneratorExp)) and len(st.value.generators) == 1 \
                    and isinstance(st.value.generators[0].target, ast.Name) and i + 1 < len(stmts):
                x = st.targets[0].id
                inner = st.value
                if loads.get(x, 0) == 1 and stores.get(x, 0) == 1:
                    nxt = stmts[i + 1]
                    for c in ast.walk(nxt):
                        if isinstance(c, (ast.ListComp, ast.GeneratorExp, ast.SetComp)) and isinstance(
                                c.generators[0].iter, ast.Name) and c.generators[0].iter.id == x and isinstance(
                                    c.generators[0].target, ast.Name) and len(c.generators) == 1:
                            g = c.generators[0]
                            v = g.target.id
                            ig = inner.generators[0]
                            others = {n.id for n in ast.walk(c.elt) if isinstance(n, ast.Name)} | {
                                n.id for f_ in g.ifs for n in ast.walk(f_) if isinstance(n, ast.Name)}
                            if ig.target.id in others - {v}:
                                break
                            sub = _Subst({v: inner.elt})
                            c.elt = sub.visit(c.elt)
                            g.ifs = [copy.deepcopy(f_) for f_ in ig.ifs] + [sub.visit(f_) for f_ in g.ifs]
                            g.target = copy.deepcopy(ig.target)
                            g.iter = copy.deepcopy(ig.iter)
                            del stmts[i]
                            changed = True
                            i -= 1
                            break
            i += 1
    block(fn.body)
    return changed


def _split_generator_loops(fn, chain, recorded):
    """N19: `for x in self._tiers(): BODY` where `_tiers` is a new generator method made only of
    `for v in IT: yield E` loops (one after the other) is those loops written out:
    `for v in IT: x = E; BODY` for each of them, in order.  BODY must not `break` (a break would
    leave all of them) and the loop has no else."""
    import copy as _copy
    changed = [False]

    def helper_of(call):
        if not (isinstance(call, ast.Call) and isinstance(call.func, ast.Attribute) and isinstance(call.func.value, ast.Name)
                and call.func.value.id == 'self' and not call.args and not call.keywords):
            return None
        for c in chain:
            for b in c.body:
                if isinstance(b, ast.FunctionDef) and b.name == call.func.attr:
                    if recorded is not None and c.name in recorded and b.name in recorded[c.name]:
                        return None
                    body = [s_ for s_ in b.body if not _is_docstring(s_)]
                    if body and len(b.args.args) == 1 and not b.decorator_list and all(
                            isinstance(s_, ast.For) and not s_.orelse and len(s_.body) == 1 and isinstance(s_.body[0], ast.Expr)
                            and isinstance(s_.body[0].value, ast.Yield) and s_.body[0].value.value is not None
                            and isinstance(s_.target, ast.Name) for s_ in body):
                        return body
                    return None
        return None

    def has_break(stmts):
        for st in stmts:
            if isinstance(st, ast.Break):
                return True
            if isinstance(st, (ast.For, ast.While, ast.FunctionDef, ast.AsyncFunctionDef, ast.ClassDef)):
                continue
            for field in ('body', 'orelse', 'finalbody'):
                if has_break(getattr(st, field, []) or []):
                    return True
            for h in getattr(st, 'handlers', []) or []:
                if has_break(h.body):
                    return True
        return False

    def block(stmts):
        i = 0
        while i < len(stmts):
            st = stmts[i]
            for field in ('body', 'orelse', 'finalbody'):
                sub = getattr(st, field, None)
                if isinstance(sub, list) and not isinstance(st, (ast.FunctionDef, ast.AsyncFunctionDef, ast.ClassDef)):
                    block(sub)
            for h in getattr(st, 'handlers', []) or []:
                block(h.body)
            if isinstance(st, ast.For) and not st.orelse and not has_break(st.body):
                loops = helper_of(st.iter)
                if loops:
                    out = []
                    for lp in loops:
                        nv = _fresh(lp.target.id)

                        class R(ast.NodeTransformer):
                            def visit_Name(self, node):
                                if node.id == lp.target.id:
                                    return ast.copy_location(ast.Name(id=nv, ctx=node.ctx), node)
                                return node
                        it = R().visit(_copy.deepcopy(lp.iter))
                        val = R().visit(_copy.deepcopy(lp.body[0].value.value))
                        tgt = _copy.deepcopy(st.target)
                        body_ = _copy.deepcopy(st.body)
                        if isinstance(st.target, ast.Name):
                            # one name per written-out loop: each is then a single-assignment alias of its element
                            tn_old, tn_new = st.target.id, _fresh(st.target.id)

                            class RT(ast.NodeTransformer):
                                def visit_Name(self, node):
                                    if node.id == tn_old:
                                        return ast.copy_location(ast.Name(id=tn_new, ctx=node.ctx), node)
                                    return node
                            tgt = ast.Name(id=tn_new, ctx=ast.Store())
                            body_ = [RT().visit(x) for x in body_]
                        bind = ast.Assign(targets=[tgt], value=val, type_comment=None)
                        new = ast.For(target=ast.Name(id=nv, ctx=ast.Store()), iter=it,
                                      body=[bind] + body_, orelse=[], type_comment=None)
                        out.append(ast.fix_missing_locations(ast.copy_location(new, st)))
                    stmts[i:i + 1] = out
                    changed[0] = True
                    i += len(out)
                    continue
            i += 1
    block(fn.body)
    return changed[0]


def _genexp_closures(fn):
    """N21: a nested generator function without parameters whose body is one loop
    `for T in IT: <local = expr>*; yield E` is the generator expression `(E' for T in IT)` (the
    locals substituted) at each call `g()`; the definition goes when nothing else mentions it."""
    import copy as _copy
    defs = {}
    for st in fn.body:
        if isinstance(st, ast.FunctionDef) and not st.decorator_list and not st.args.args and not st.args.vararg \
                and not st.args.kwarg and not st.args.kwonlyargs:
            body = [x for x in st.body if not _is_docstring(x)]
            if len(body) == 1 and isinstance(body[0], ast.For) and not body[0].orelse and body[0].body \
                    and isinstance(body[0].body[-1], ast.Expr) and isinstance(body[0].body[-1].value, ast.Yield) \
                    and body[0].body[-1].value.value is not None and all(
                        isinstance(x, ast.Assign) and len(x.targets) == 1 and isinstance(x.targets[0], ast.Name)
                        for x in body[0].body[:-1]):
                lp = body[0]
                if sum(1 for y in ast.walk(st) if isinstance(y, (ast.Yield, ast.YieldFrom))) != 1:
                    continue
                env = {}
                ok = True
                for a in lp.body[:-1]:
                    if a.targets[0].id in env:
                        ok = False
                    env[a.targets[0].id] = _subst_names(_copy.deepcopy(a.value), env)
                if ok:
                    elt = _subst_names(_copy.deepcopy(lp.body[-1].value.value), env)
                    defs[st.name] = (st, ast.GeneratorExp(elt=elt, generators=[ast.comprehension(
                        target=_copy.deepcopy(lp.target), iter=_copy.deepcopy(lp.iter), ifs=[], is_async=0)]))
    if not defs:
        return False
    changed = [False]

    class R(ast.NodeTransformer):
        def visit_Call(self, node):
            self.generic_visit(node)
            if isinstance(node.func, ast.Name) and node.func.id in defs and not node.args and not node.keywords:
                changed[0] = True
                return ast.fix_missing_locations(ast.copy_location(_copy.deepcopy(defs[node.func.id][1]), node))
            return node
    for st in fn.body:
        if not any(st is d[0] for d in defs.values()):
            R().visit(st)
    for name, (d, _g) in defs.items():
        if not any(isinstance(y, ast.Name) and y.id == name for st in fn.body if st is not d for y in ast.walk(st)):
            fn.body.remove(d)
    return changed[0]


def _subst_names(e, env):
    class S(ast.NodeTransformer):
        def visit_Name(self, node):
            if isinstance(node.ctx, ast.Load) and node.id in env:
                import copy as _c
                return ast.copy_location(_c.deepcopy(env[node.id]), node)
            return node

        def visit_Lambda(self, node):
            return node
    return S().visit(e)


def _calls_through_method_choice(fn, cls_name):
    """N22: `f = Cls.m1 if t else Cls.m2` (a choice between functions of the class itself, e.g. from a folded
    dispatch table), every use of `f` being a call `f(self, args)`: the call is the same choice between
    `self.m1(args)` and `self.m2(args)`, and the local goes."""
    import copy as _copy
    if not cls_name:
        return False

    def leaves(e):
        if isinstance(e, ast.IfExp):
            a, b = leaves(e.body), leaves(e.orelse)
            return None if a is None or b is None else a + b
        if isinstance(e, ast.Attribute) and isinstance(e.value, ast.Name) and e.value.id == cls_name:
            return [e]
        return None
    stores = {}
    for n in _walk_no_nested(fn):
        if isinstance(n, ast.Name) and isinstance(n.ctx, (ast.Store, ast.Del)):
            stores[n.id] = stores.get(n.id, 0) + 1
    changed = False
    for st in list(_walk_no_nested(fn)):
        if not (isinstance(st, ast.Assign) and len(st.targets) == 1 and isinstance(st.targets[0], ast.Name)
                and stores.get(st.targets[0].id) == 1 and leaves(st.value)):
            continue
        f = st.targets[0].id
        uses = [n for n in _walk_no_nested(fn) if isinstance(n, ast.Name) and n.id == f and isinstance(n.ctx, ast.Load)]
        calls = [n for n in _walk_no_nested(fn) if isinstance(n, ast.Call) and isinstance(n.func, ast.Name) and n.func.id == f
                 and n.args and isinstance(n.args[0], ast.Name) and n.args[0].id == 'self'
                 and not any(isinstance(a, ast.Starred) for a in n.args)]
        if not uses or len(uses) != len(calls):
            continue

        def build(e, call):
            if isinstance(e, ast.IfExp):
                return ast.IfExp(test=_copy.deepcopy(e.test), body=build(e.body, call), orelse=build(e.orelse, call))
            return ast.Call(func=ast.Attribute(value=ast.Name(id='self', ctx=ast.Load()), attr=e.attr, ctx=ast.Load()),
                            args=[_copy.deepcopy(a) for a in call.args[1:]], keywords=[_copy.deepcopy(k) for k in call.keywords])
        ids = {id(c_): c_ for c_ in calls}

        class R(ast.NodeTransformer):
            def visit_Call(self, node):
                self.generic_visit(node)
                if id(node) in ids:
                    return ast.fix_missing_locations(ast.copy_location(build(st.value, node), node))
                return node
        R().visit(fn)

        class Drop(ast.NodeTransformer):
            def visit_Assign(self, node):
                return ast.copy_location(ast.Pass(), node) if node is st else node
        Drop().visit(fn)
        changed = True
    return changed


def _thread_none_guards(fn):
    """N20: the "lookup or None" shape left by an inlined helper:
        if C: v = None            v = X
        else: v = X        ==>    if C or v is None: S
        if v is None: S
    (S any statements; X is evaluated once either way: it must already be evaluated inside C, or be a
    plain name / attribute chain).  Afterwards `v` is a single-assignment alias of X and what follows S's
    exit stands under `not C`."""
    changed = [False]

    def simple(x):
        while isinstance(x, ast.Attribute):
            x = x.value
        return isinstance(x, (ast.Name, ast.Constant))

    def block(stmts):
        i = 0
        while i < len(stmts):
            st = stmts[i]
            for field in ('body', 'orelse', 'finalbody'):
                sub = getattr(st, field, None)
                if isinstance(sub, list) and not isinstance(st, (ast.FunctionDef, ast.AsyncFunctionDef, ast.ClassDef)):
                    block(sub)
            for h in getattr(st, 'handlers', []) or []:
                block(h.body)
            if isinstance(st, ast.If) and i + 1 < len(stmts) and isinstance(stmts[i + 1], ast.If) \
                    and len(st.body) == 1 and len(st.orelse) == 1:
                a, b = st.body[0], st.orelse[0]
                test = st.test
                if isinstance(b, ast.Assign) and isinstance(b.value, ast.Constant) and b.value.value is None:
                    a, b = b, a
                    test = ast.UnaryOp(op=ast.Not(), operand=test)
                nxt = stmts[i + 1]
                if isinstance(a, ast.Assign) and isinstance(b, ast.Assign) and len(a.targets) == 1 and len(b.targets) == 1 \
                        and isinstance(a.targets[0], ast.Name) and isinstance(b.targets[0], ast.Name) \
                        and a.targets[0].id == b.targets[0].id and isinstance(a.value, ast.Constant) and a.value.value is None \
                        and not nxt.orelse and isinstance(nxt.test, ast.Compare) and len(nxt.test.ops) == 1 \
                        and isinstance(nxt.test.ops[0], ast.Is) and isinstance(nxt.test.left, ast.Name) \
                        and nxt.test.left.id == a.targets[0].id and isinstance(nxt.test.comparators[0], ast.Constant) \
                        and nxt.test.comparators[0].value is None:
                    v, X = a.targets[0].id, b.value
                    xd = ast.dump(X)
                    if not any(isinstance(y, ast.Name) and y.id == v for y in ast.walk(X)) and (
                            simple(X) or any(ast.dump(y) == xd for y in ast.walk(st.test))):
                        new_assign = ast.copy_location(ast.Assign(targets=[ast.Name(id=v, ctx=ast.Store())], value=X,
                                                                  type_comment=None), st)
                        nxt.test = ast.copy_location(ast.BoolOp(op=ast.Or(), values=[test, nxt.test]), nxt.test)
                        stmts[i] = ast.fix_missing_locations(new_assign)
                        ast.fix_missing_locations(nxt)
                        changed[0] = True
            i += 1
    block(fn.body)
    return changed[0]


def _fold_sentinels(tree):
    """N18: comparisons with a private sentinel object.  `_MARK = object()` at module level (bound once,
    underscore-private) is a value nothing else can be equal to; when it is only ever compared and
    handed to calls as an argument, an expression that is not a parameter of a function receiving it
    cannot be it: `x is _MARK` folds to False (`_MARK is _MARK` to True) and the dead branch goes.
    Run after inlining, when the helper that tested its parameter has been judged at its call."""
    stores = {}
    for n in ast.walk(tree):
        if isinstance(n, ast.Name) and isinstance(n.ctx, (ast.Store, ast.Del)):
            stores[n.id] = stores.get(n.id, 0) + 1
    sents = set()
    for st in tree.body:
        if isinstance(st, ast.Assign) and len(st.targets) == 1 and isinstance(st.targets[0], ast.Name) \
                and isinstance(st.value, ast.Call) and isinstance(st.value.func, ast.Name) and st.value.func.id == 'object' \
                and not st.value.args and not st.value.keywords and st.targets[0].id.startswith('_') \
                and stores.get(st.targets[0].id) == 1:
            sents.add(st.targets[0].id)
    if not sents:
        return False
    parent = {}
    for n in ast.walk(tree):
        for c in ast.iter_child_nodes(n):
            parent[id(c)] = n
    recv = {s_: set() for s_ in sents}
    escaped = set()
    for n in ast.walk(tree):
        if not (isinstance(n, ast.Name) and n.id in sents and isinstance(n.ctx, ast.Load)):
            continue
        p_ = parent.get(id(n))
        if isinstance(p_, ast.Compare) and all(isinstance(o, (ast.Is, ast.IsNot, ast.Eq, ast.NotEq)) for o in p_.ops):
            continue
        if isinstance(p_, ast.IfExp) and n is not p_.test:
            p_ = parent.get(id(p_))          # a branch of a conditional argument
            n_arg = True
        if isinstance(p_, ast.keyword):
            p_ = parent.get(id(p_))
        if isinstance(p_, ast.Call) and n is not p_.func:
            f_ = p_.func
            recv[n.id].add(f_.attr if isinstance(f_, ast.Attribute) else getattr(f_, 'id', '?'))
            continue
        if isinstance(p_, ast.arguments):
            fn_ = parent.get(id(p_))
            recv[n.id].add(getattr(fn_, 'name', '?'))
            continue
        escaped.add(n.id)
    sents -= escaped
    if not sents:
        return False
    changed = [False]

    class Fold(ast.NodeTransformer):
        def __init__(self):
            self.fn = []

        def visit_FunctionDef(self, node):
            self.fn.append(node)
            self.generic_visit(node)
            self.fn.pop()
            return node
        visit_AsyncFunctionDef = visit_FunctionDef

        def visit_Compare(self, node):
            self.generic_visit(node)
            if len(node.ops) != 1 or not isinstance(node.ops[0], (ast.Is, ast.IsNot)):
                return node
            a, b = node.left, node.comparators[0]
            if isinstance(a, ast.Name) and a.id in sents:
                a, b = b, a
            if not (isinstance(b, ast.Name) and b.id in sents):
                return node
            same = None
            if isinstance(a, ast.Name) and a.id == b.id:
                same = True
            elif isinstance(a, ast.Name) and a.id in sents:
                same = False
            elif isinstance(a, (ast.Constant, ast.Attribute, ast.Call, ast.BinOp)):
                same = False
            elif isinstance(a, ast.Name) and self.fn:
                g = self.fn[-1]
                params = {x.arg for x in g.args.args + g.args.kwonlyargs + g.args.posonlyargs}
                rebound = any(isinstance(x, ast.Name) and x.id == a.id and isinstance(x.ctx, ast.Store) for x in ast.walk(g))
                if a.id in params and not rebound and g.name not in recv[b.id]:
                    same = False
            if same is None:
                return node
            changed[0] = True
            val = same if isinstance(node.ops[0], ast.Is) else not same
            return ast.copy_location(ast.Constant(value=val), node)
    Fold().visit(tree)
    return changed[0]


def normalize_module(tree, no_inline, all_classes=None, recorded=None, all_funcs=None):
    """Normalise one module in place.  Returns {helper qual: inlined call count}.
    recorded: {class name: names of its methods in the recorded (pinned) tree}."""
    for fn_ in [n for n in ast.walk(tree) if isinstance(n, ast.FunctionDef)]:
        _forward_return_temps(fn_)
        _forward_flags(fn_)
    for c_ in [n for n in tree.body if isinstance(n, ast.ClassDef)]:
        for fn_ in [b for b in c_.body if isinstance(b, ast.FunctionDef)]:
            _calls_through_method_choice(fn_, c_.name)       # (before conditional expressions are taken apart)
    tree = _DictIdioms().visit(tree)
    tree = _IfExpDesugar().visit(tree)
    tree = _Unroll().visit(tree)
    if _idioms.rewrite_tree(tree):
        tree = _IfExpDesugar().visit(tree)
        tree = _Unroll().visit(tree)
    classes = {n.name: n for n in tree.body if isinstance(n, ast.ClassDef)}
    known = dict(all_classes or {})
    known.update(classes)

    def chain(c, seen=None):
        seen = seen or set()
        out = [c]
        for b in c.bases:
            bn = b.id if isinstance(b, ast.Name) else (b.attr if isinstance(b, ast.Attribute) else None)
            if bn in known and bn not in seen:
                seen.add(bn)
                out += chain(known[bn], seen)
        return out

    def qual_of(owner, h):
        return '%s.%s' % (owner.name, h.name) if owner is not None else ':%s' % h.name
    inl = Inliner(classes, no_inline)
    if recorded:
        defs = {}
        for c in known.values():
            for b in c.body:
                if isinstance(b, ast.FunctionDef):
                    defs.setdefault(b.name, []).append((c, b))
        for name, lst in defs.items():
            if name.startswith('__') and name.endswith('__'):
                continue
            # (a class the recorded tree does not have is new as a whole: a small record / helper class)
            if not all((c.name not in recorded or name not in recorded[c.name]) and not b.decorator_list for c, b in lst):
                continue
            # unique, or sibling implementations with the same body (then either stands for the call)
            bodies = {ast.dump(ast.Module(body=[x for x in b.body if not _is_docstring(x)], type_ignores=[])) for c, b in lst}
            if len(lst) == 1 or len(bodies) == 1:
                inl.fresh[name] = lst[0]
        # properties that are new w.r.t. the recorded tree, read on any receiver: the same rule
        stored = set()
        for c in known.values():
            for x in ast.walk(c):
                if isinstance(x, ast.Attribute) and isinstance(x.ctx, (ast.Store, ast.Del)):
                    stored.add(x.attr)
        for name, lst in defs.items():
            if name.startswith('__') or name in stored or name in ('value', 'name'):
                continue
            if not all((c.name not in recorded or name not in recorded[c.name]) and len(b.decorator_list) == 1 and isinstance(
                    b.decorator_list[0], ast.Name) and b.decorator_list[0].id == 'property' for c, b in lst):
                continue
            bodies = {ast.dump(ast.Module(body=[x for x in b.body if not _is_docstring(x)], type_ignores=[])) for c, b in lst}
            if len(bodies) == 1:
                inl.fresh_props[name] = lst[0]
    for n in tree.body:
        if isinstance(n, ast.FunctionDef) and n.name.startswith('_') and not n.name.startswith('__'):
            n._module_level = True
            inl.module_funcs[n.name] = n
        elif isinstance(n, ast.FunctionDef) and all_funcs and all_funcs.get(n.name) is n:
            n._module_level = n._fresh_func = True      # public, but not in the recorded tree
            inl.module_funcs[n.name] = n
        elif isinstance(n, ast.ImportFrom) and all_funcs and (n.level or (n.module or '').split('.')[0] == 'topsim'):
            # from topsim.core.delay import apply_delay_model [as adm]: a helper of another module
            for a in n.names:
                h = all_funcs.get(a.name)
                if h is not None and (a.asname or a.name) not in inl.module_funcs:
                    h._module_level = h._fresh_func = True
                    inl.module_funcs[a.asname or a.name] = h
    for c in classes.values():
        ch = chain(c)
        for fn in [b for b in c.body if isinstance(b, ast.FunctionDef)]:
            if _genexp_closures(fn):
                _idioms.rewrite_function(fn, c.name)
            if _calls_through_method_choice(fn, c.name):
                _IfExpDesugar().visit(fn)
            inl.local_funcs = _closures(fn)
            _split_generator_loops(fn, ch, recorded)
            for _ in range(3):
                t1 = _InlineExprs(inl, ch, fn, qual_of)
                t1.visit(fn)
                t2 = _InlineStmts(inl, ch, fn, qual_of)
                t2.visit(fn)
                if t1.changed or t2.changed:
                    # newly exposed library idioms, conditional expressions / literal loops
                    _idioms.rewrite_function(fn, c.name)
                    _DictIdioms().visit(fn)
                    _IfExpDesugar().visit(fn)
                    _Unroll().visit(fn)
                    _FoldConst().visit(fn)
                else:
                    break
            if _fuse_comprehensions(fn):
                _idioms.rewrite_function(fn, c.name)
            _forward_return_temps(fn)          # (return temporaries of inlined helpers)
            _thread_none_guards(fn)
            _scalarise_tuples(fn)
            _SplitTupleAssign().visit(fn)
            _forward_process_temps(fn)
            _forward_flags(fn)
            _forward_loop_flags(fn)
    for fn in [n for n in tree.body if isinstance(n, ast.FunctionDef)]:
        _forward_process_temps(fn)
    if _fold_sentinels(tree):
        _FoldConst().visit(tree)
    ast.fix_missing_locations(tree)
    return inl.inlined_calls


def merged_caller(class_node, caller_name, callee_name, no_inline):
    """A copy of method `caller_name` of the (already normalised) class with the calls to its own
    method `callee_name` inlined, whatever the inlining policy says about that name: the view a
    rule takes when a block may sit on either side of the call (responsibility moved between an
    anchor method and its caller).  None when nothing could be inlined."""
    import copy as _copy
    fn = next((b for b in class_node.body if isinstance(b, ast.FunctionDef) and b.name == caller_name), None)
    if fn is None or not any(isinstance(b, ast.FunctionDef) and b.name == callee_name for b in class_node.body):
        return None
    fn = _copy.deepcopy(fn)
    inl = Inliner({class_node.name: class_node}, set(no_inline) - {callee_name})
    ch = [class_node]

    def qual_of(owner, h):
        return '%s.%s' % (owner.name, h.name) if owner is not None else ':%s' % h.name
    only = {callee_name}
    orig_lookup = inl.lookup

    def lookup(chain, call):
        o, h, nm = orig_lookup(chain, call)
        if nm not in only:
            return None, None, None
        return o, h, nm
    inl.lookup = lookup
    done = False
    for _ in range(2):
        t1 = _InlineExprs(inl, ch, fn, qual_of)
        t1.visit(fn)
        t2 = _InlineStmts(inl, ch, fn, qual_of)
        t2.visit(fn)
        if not (t1.changed or t2.changed):
            break
        done = True
        _idioms.rewrite_function(fn, class_node.name)
        _DictIdioms().visit(fn)
        _IfExpDesugar().visit(fn)
        _Unroll().visit(fn)
        _FoldConst().visit(fn)
    if not done:
        return None
    _forward_return_temps(fn)
    _scalarise_tuples(fn)
    _SplitTupleAssign().visit(fn)
    _forward_flags(fn)
    ast.fix_missing_locations(fn)
    return fn
