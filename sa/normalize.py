"""Source normalisation applied before any rule runs (stdlib ast, semantics-preserving).

The rules judge the *normalised* program, so that behaviour-preserving edits do not
change a verdict:

 N1  conditional expressions at statement level become if/else
        x = a if c else b      ->  if c: x = a  else: x = b        (also `return`)
 N2  loops over a literal tuple/list of up to 6 elements are unrolled
 N3  calls to small private helpers of the same class are inlined
        statement level:  self._h(a)      x = self._h(a)      return self._h(a)
        expression level: helpers that are straight-line assignments + `return <expr>`
        comprehension:    x = [self._h(v) for v in I]  ->  x = []; for v in I: <body>; x.append(r)
     never inlined: generators, recursive helpers, helpers whose NAME is a semantic anchor of
     a rule (Canon.NO_INLINE), helpers longer than 60 statements
 N4  `a, b = X` keeps working for provenance (handled in norm.Canon.p), listed here for the record

Line numbers of the original statements are kept, so reports still point at real lines.
"""
import ast
import copy

MAX_HELPER_STMTS = 60
MAX_UNROLL = 6

_counter = [0]


def _fresh(prefix):
    _counter[0] += 1
    return '%s__n%d' % (prefix, _counter[0])


def _is_docstring(s):
    return isinstance(s, ast.Expr) and isinstance(s.value, ast.Constant) and isinstance(s.value.value, str)


def _is_logging(s):
    if isinstance(s, ast.Expr) and isinstance(s.value, ast.Call):
        f = s.value.func
        return isinstance(f, ast.Attribute) and f.attr in ('debug', 'info', 'warning', 'error') and \
            isinstance(f.value, ast.Name) and f.value.id.lower() in ('logger', 'log')
    return False


def _walk_no_nested(node):
    stack = [node]
    while stack:
        n = stack.pop()
        yield n
        for c in ast.iter_child_nodes(n):
            if isinstance(c, (ast.FunctionDef, ast.AsyncFunctionDef, ast.ClassDef, ast.Lambda)) and c is not node:
                continue
            stack.append(c)


def _contains_yield(fn):
    return any(isinstance(n, (ast.Yield, ast.YieldFrom)) for n in _walk_no_nested(fn) if n is not fn) or \
        any(isinstance(n, (ast.Yield, ast.YieldFrom)) for s in fn.body for n in _walk_no_nested(s))


# --------------------------------------------------------------------------- N1
class _IfExpDesugar(ast.NodeTransformer):
    def _split(self, node, make):
        v = node.value
        if not isinstance(v, ast.IfExp):
            return node
        a = ast.copy_location(make(v.body), node)
        b = ast.copy_location(make(v.orelse), node)
        a = self._split(a, make)
        b = self._split(b, make)
        new = ast.If(test=v.test, body=[a], orelse=[b])
        return ast.copy_location(new, node)

    def visit_Assign(self, node):
        self.generic_visit(node)
        tg = node.targets
        return self._split(node, lambda val: ast.Assign(targets=copy.deepcopy(tg), value=val, type_comment=None))

    def visit_Return(self, node):
        self.generic_visit(node)
        if node.value is None:
            return node
        return self._split(node, lambda val: ast.Return(value=val))

    def visit_Lambda(self, node):
        return node


# --------------------------------------------------------------------------- N2
class _Subst(ast.NodeTransformer):
    def __init__(self, mapping):
        self.mapping = mapping

    def visit_Name(self, node):
        if isinstance(node.ctx, ast.Load) and node.id in self.mapping:
            return ast.copy_location(copy.deepcopy(self.mapping[node.id]), node)
        return node

    def visit_Lambda(self, node):
        return node


def _simple_elt(e):
    if isinstance(e, (ast.Name, ast.Constant)):
        return True
    if isinstance(e, ast.Attribute):
        return _simple_elt(e.value)
    if isinstance(e, ast.Subscript):
        return _simple_elt(e.value) and _simple_elt(e.slice)
    return False


class _ContinueToBreak(ast.NodeTransformer):
    """inside one unrolled copy: `continue` of the unrolled loop ends the copy"""

    def visit_Continue(self, node):
        return ast.copy_location(ast.Break(), node)

    def visit_For(self, node):
        return node          # continue/break inside belong to the inner loop

    def visit_While(self, node):
        return node

    def visit_FunctionDef(self, node):
        return node

    def visit_Lambda(self, node):
        return node


def _own_jumps(body, kind):
    """Break/Continue statements of `body` that belong to the loop owning `body`"""
    out = []

    def rec(n):
        for c in ast.iter_child_nodes(n):
            if isinstance(c, (ast.For, ast.While, ast.AsyncFor, ast.FunctionDef, ast.AsyncFunctionDef,
                              ast.Lambda, ast.ClassDef)):
                continue
            if isinstance(c, kind):
                out.append(c)
            rec(c)
    for s in body:
        if isinstance(s, kind):
            out.append(s)
        if not isinstance(s, (ast.For, ast.While, ast.AsyncFor)):
            rec(s)
    return out


class _Unroll(ast.NodeTransformer):
    def __init__(self):
        self.literals = {}      # per function: name -> tuple/list literal (single assignment)

    def visit_FunctionDef(self, node):
        saved = self.literals
        stores = {}
        for n in _walk_no_nested(node):
            if isinstance(n, ast.Name) and isinstance(n.ctx, (ast.Store, ast.Del)):
                stores[n.id] = stores.get(n.id, 0) + 1
        self.literals = {}
        for n in _walk_no_nested(node):
            if isinstance(n, ast.Assign) and len(n.targets) == 1 and isinstance(n.targets[0], ast.Name) and \
                    isinstance(n.value, (ast.Tuple, ast.List)) and stores.get(n.targets[0].id) == 1 and \
                    0 < len(n.value.elts) <= MAX_UNROLL and all(_simple_elt(e) for e in n.value.elts):
                self.literals[n.targets[0].id] = n.value
        self.generic_visit(node)
        self.literals = saved
        return node

    def visit_For(self, node):
        self.generic_visit(node)
        it = node.iter
        if isinstance(it, ast.Name) and it.id in self.literals:
            it = self.literals[it.id]
        if isinstance(it, (ast.Tuple, ast.List)) and 0 < len(it.elts) <= MAX_UNROLL and \
                isinstance(node.target, ast.Name) and not node.orelse and all(_simple_elt(e) for e in it.elts):
            v = node.target.id
            body_nodes = [n for s in node.body for n in ast.walk(s)]
            if any(isinstance(n, ast.Name) and n.id == v and isinstance(n.ctx, (ast.Store, ast.Del))
                   for n in body_nodes):
                return node
            if _own_jumps(node.body, ast.Break):
                return node
            has_continue = bool(_own_jumps(node.body, ast.Continue))
            out = []
            for e in it.elts:
                copy_body = [_Subst({v: e}).visit(copy.deepcopy(s)) for s in node.body]
                if has_continue:
                    copy_body = [x for s in copy_body for x in (lambda r: r if isinstance(r, list) else [r])(
                        _ContinueToBreak().visit(s))]
                    copy_body.append(ast.copy_location(ast.Break(), node))
                    out.append(ast.copy_location(ast.While(test=ast.Constant(value=True), body=copy_body,
                                                           orelse=[]), node))
                else:
                    out.extend(copy_body)
            return out
        return node

    def visit_Lambda(self, node):
        return node


# --------------------------------------------------------------------------- N3
class _Rename(ast.NodeTransformer):
    def __init__(self, mapping):
        self.mapping = mapping      # old local name -> new name

    def visit_Name(self, node):
        if node.id in self.mapping:
            return ast.copy_location(ast.Name(id=self.mapping[node.id], ctx=node.ctx), node)
        return node

    def visit_Lambda(self, node):
        return node


def _assigned_locals(fn):
    out = set()
    for n in _walk_no_nested(fn):
        if isinstance(n, ast.Name) and isinstance(n.ctx, (ast.Store, ast.Del)):
            out.add(n.id)
        elif isinstance(n, ast.ExceptHandler) and n.name:
            out.add(n.name)
    return out


def _bind(helper, call):
    """param -> arg expression (None when the call shape is not supported)"""
    a = helper.args
    if a.vararg or a.kwarg or a.posonlyargs:
        return None
    params = [x.arg for x in a.args]
    static = any(isinstance(d, ast.Name) and d.id == 'staticmethod' for d in helper.decorator_list)
    if not static and not getattr(helper, '_module_level', False):
        params = params[1:]
    binding = {}
    if any(isinstance(x, ast.Starred) for x in call.args) or any(k.arg is None for k in call.keywords):
        return None
    if len(call.args) > len(params):
        return None
    for p, v in zip(params, call.args):
        binding[p] = v
    names = params + [x.arg for x in a.kwonlyargs]
    for k in call.keywords:
        if k.arg not in names or k.arg in binding:
            return None
        binding[k.arg] = k.value
    defaults = dict(zip([x.arg for x in a.args][len(a.args) - len(a.defaults):], a.defaults))
    for kw, d in zip(a.kwonlyargs, a.kw_defaults):
        if d is not None:
            defaults[kw.arg] = d
    for p in names:
        if p not in binding:
            if p in defaults:
                binding[p] = defaults[p]
            else:
                return None
    return binding


class Inliner:
    def __init__(self, classes, no_inline):
        self.classes = classes            # name -> ast.ClassDef (with bases resolved by name)
        self.no_inline = no_inline
        self.inlined_calls = {}           # helper qual -> count
        self.kept_calls = {}
        self.module_funcs = {}            # private module-level functions of this module

    def helper(self, cls_chain, name):
        for c in cls_chain:
            for b in c.body:
                if isinstance(b, ast.FunctionDef) and b.name == name:
                    return c, b
        return None, None

    def module_helper(self, name):
        return self.module_funcs.get(name)

    def eligible(self, h, name, caller, allow_generator=False):
        if h is None or h is caller or name in self.no_inline or not name.startswith('_') or name.startswith('__'):
            return False
        if (_contains_yield(h) and not allow_generator) or len(list(_walk_no_nested(h))) > 800:
            return False
        n_stmts = sum(1 for n in _walk_no_nested(h) if isinstance(n, ast.stmt))
        if n_stmts > MAX_HELPER_STMTS:
            return False
        if any(d for d in h.decorator_list if not (isinstance(d, ast.Name) and d.id == 'staticmethod')):
            return False
        # direct recursion
        for n in _walk_no_nested(h):
            if isinstance(n, ast.Call) and isinstance(n.func, ast.Attribute) and n.func.attr == name:
                return False
        return True

    @staticmethod
    def _self_call(e):
        return isinstance(e, ast.Call) and isinstance(e.func, ast.Attribute) and isinstance(
            e.func.value, ast.Name) and e.func.value.id in ('self',)

    def lookup(self, chain, call):
        """(owner, helper def, name) for a call that may be inlined, else (None, None, None)"""
        if self._self_call(call):
            o, h = self.helper(chain, call.func.attr)
            return o, h, call.func.attr
        if isinstance(call, ast.Call) and isinstance(call.func, ast.Name) and call.func.id in self.module_funcs:
            h = self.module_funcs[call.func.id]
            return None, h, call.func.id
        return None, None, None

    def pure_expr(self, h, binding):
        """for helpers that are straight-line local assignments + return <expr>: that expression
        with locals and parameters substituted; else None"""
        env = dict(binding)
        body = [s for s in h.body if not _is_docstring(s) and not _is_logging(s)]
        if not body or not isinstance(body[-1], ast.Return) or body[-1].value is None:
            return None
        for s in body[:-1]:
            if isinstance(s, ast.Assign) and len(s.targets) == 1 and isinstance(s.targets[0], ast.Name):
                env[s.targets[0].id] = _Subst(env).visit(copy.deepcopy(s.value))
            else:
                return None
        e = _Subst(env).visit(copy.deepcopy(body[-1].value))
        return e

    def stmts(self, h, binding, target, at):
        """helper body as statements assigning its result to `target` (ast expr list or None)"""
        locs = _assigned_locals(h) - set(binding)
        ren = {l: _fresh(l) for l in locs}
        pre = []
        sub = {}
        for p, v in binding.items():
            if _simple_elt(v) and p not in _assigned_locals(h):
                sub[p] = v
            else:
                nm = _fresh(p)
                pre.append(ast.copy_location(ast.Assign(targets=[ast.Name(id=nm, ctx=ast.Store())],
                                                        value=copy.deepcopy(v), type_comment=None), at))
                ren[p] = nm
        body = [copy.deepcopy(s) for s in h.body if not _is_docstring(s)]
        body = [_Subst(sub).visit(_Rename(ren).visit(s)) for s in body]
        rets = [n for s in body for n in _walk_no_nested(s) if isinstance(n, ast.Return)]
        single_tail = len(rets) == 1 and body and body[-1] is rets[0]
        no_ret = not rets

        def ret_to(node):
            out = []
            if target is not None and node.value is not None:
                out.append(ast.copy_location(ast.Assign(targets=copy.deepcopy(target), value=node.value,
                                                        type_comment=None), node))
            elif target is not None:
                out.append(ast.copy_location(ast.Assign(targets=copy.deepcopy(target),
                                                        value=ast.Constant(value=None), type_comment=None), node))
            elif node.value is not None and any(isinstance(x, ast.Call) for x in ast.walk(node.value)):
                out.append(ast.copy_location(ast.Expr(value=node.value), node))
            return out
        if single_tail:
            body = body[:-1] + ret_to(rets[0])
            return pre + (body or [ast.copy_location(ast.Pass(), at)])
        if no_ret:
            if target is not None:
                body.append(ast.copy_location(ast.Assign(targets=copy.deepcopy(target),
                                                         value=ast.Constant(value=None), type_comment=None), at))
            return pre + (body or [ast.copy_location(ast.Pass(), at)])

        def has_ret(ss):
            return any(isinstance(n, ast.Return) for x in ss for n in _walk_no_nested(x))

        def terminates(ss):
            if not ss:
                return False
            t = ss[-1]
            if isinstance(t, (ast.Return, ast.Raise)):
                return True
            return isinstance(t, ast.If) and terminates(t.body) and terminates(t.orelse)

        def lower(ss):
            """guard clauses -> structured if/else (None: not of that shape)"""
            out = []
            for i, st in enumerate(ss):
                if isinstance(st, ast.Return):
                    return out + ret_to(st)
                if isinstance(st, ast.Raise):
                    return out + [st]
                if not has_ret([st]):
                    out.append(st)
                    continue
                if not isinstance(st, ast.If):
                    return None
                bt, ot = terminates(st.body), terminates(st.orelse)
                rest = ss[i + 1:]
                if bt and ot:
                    b, o = lower(st.body), lower(st.orelse)
                elif bt and not has_ret(st.orelse):
                    b, o = lower(st.body), lower(st.orelse + rest)
                elif ot and not has_ret(st.body):
                    b, o = lower(st.body + rest), lower(st.orelse)
                else:
                    return None
                if b is None or o is None:
                    return None
                out.append(ast.copy_location(ast.If(test=st.test, body=b or [ast.copy_location(ast.Pass(), st)],
                                                    orelse=o), st))
                return out
            if target is not None:
                out.append(ast.copy_location(ast.Assign(targets=copy.deepcopy(target),
                                                        value=ast.Constant(value=None), type_comment=None), at))
            return out
        low = lower(body)
        if low is not None:
            return pre + (low or [ast.copy_location(ast.Pass(), at)])

        class R(ast.NodeTransformer):
            def visit_Return(self, node):
                return ret_to(node) + [ast.copy_location(ast.Break(), node)]

            def visit_FunctionDef(self, node):
                return node

            def visit_Lambda(self, node):
                return node
        # a return inside a loop of the helper would only break that loop: not supported
        for s in body:
            for n in _walk_no_nested(s):
                if isinstance(n, (ast.For, ast.While)) and any(isinstance(x, ast.Return) for x in ast.walk(n)):
                    return None
        body = [x for s in body for x in (lambda r: r if isinstance(r, list) else [r])(R().visit(s))]
        if target is not None:
            body.append(ast.copy_location(ast.Assign(targets=copy.deepcopy(target), value=ast.Constant(value=None),
                                                     type_comment=None), at))
        body.append(ast.copy_location(ast.Break(), at))
        loop = ast.copy_location(ast.While(test=ast.Constant(value=True), body=body, orelse=[]), at)
        return pre + [loop]


class _InlineStmts(ast.NodeTransformer):
    def __init__(self, inl, chain, caller, qual_of):
        self.inl = inl
        self.chain = chain
        self.caller = caller
        self.qual_of = qual_of
        self.changed = False

    def _try(self, call, target, at, allow_generator=False):
        owner, h, hname = self.inl.lookup(self.chain, call)
        if h is None:
            return None
        if not self.inl.eligible(h, hname, self.caller, allow_generator):
            return None
        b = _bind(h, call)
        if b is None:
            return None
        out = self.inl.stmts(h, b, target, at)
        if out is None:
            return None
        q = self.qual_of(owner, h)
        self.inl.inlined_calls[q] = self.inl.inlined_calls.get(q, 0) + 1
        self.changed = True
        return out

    def visit_Expr(self, node):
        if isinstance(node.value, ast.Call):
            r = self._try(node.value, None, node)
            if r is not None:
                return r
        # yield from self._part(...)  : a generator split into parts
        if isinstance(node.value, ast.YieldFrom) and isinstance(node.value.value, ast.Call):
            r = self._try(node.value.value, None, node, allow_generator=True)
            if r is not None:
                return r
        return node

    def visit_Assign(self, node):
        if isinstance(node.value, ast.Call):
            r = self._try(node.value, node.targets, node)
            if r is not None:
                return r
        if isinstance(node.value, ast.YieldFrom) and isinstance(node.value.value, ast.Call):
            r = self._try(node.value.value, node.targets, node, allow_generator=True)
            if r is not None:
                return r
        # x = [self._h(v) for v in I]
        v = node.value
        if isinstance(v, ast.ListComp) and len(v.generators) == 1 and not v.generators[0].ifs and \
                Inliner._self_call(v.elt) and len(node.targets) == 1 and isinstance(node.targets[0], ast.Name):
            owner, h = self.inl.helper(self.chain, v.elt.func.attr)
            if self.inl.eligible(h, v.elt.func.attr, self.caller):
                b = _bind(h, v.elt)
                if b is not None and self.inl.pure_expr(h, b) is None:
                    tmp = _fresh('item')
                    body = self.inl.stmts(h, b, [ast.Name(id=tmp, ctx=ast.Store())], node)
                    if body is not None:
                        acc = node.targets[0].id
                        init = ast.copy_location(ast.Assign(targets=[ast.Name(id=acc, ctx=ast.Store())],
                                                            value=ast.List(elts=[], ctx=ast.Load()),
                                                            type_comment=None), node)
                        app = ast.copy_location(ast.Expr(value=ast.Call(
                            func=ast.Attribute(value=ast.Name(id=acc, ctx=ast.Load()), attr='append', ctx=ast.Load()),
                            args=[ast.Name(id=tmp, ctx=ast.Load())], keywords=[])), node)
                        loop = ast.copy_location(ast.For(target=copy.deepcopy(v.generators[0].target),
                                                         iter=copy.deepcopy(v.generators[0].iter),
                                                         body=body + [app], orelse=[], type_comment=None), node)
                        q = self.qual_of(owner, h)
                        self.inl.inlined_calls[q] = self.inl.inlined_calls.get(q, 0) + 1
                        self.changed = True
                        return [init, loop]
        return node

    def visit_Return(self, node):
        v = node.value
        if isinstance(v, ast.ListComp) and len(v.generators) == 1 and not v.generators[0].ifs and \
                Inliner._self_call(v.elt):
            tmp = _fresh('result')
            asg = ast.copy_location(ast.Assign(targets=[ast.Name(id=tmp, ctx=ast.Store())], value=v,
                                               type_comment=None), node)
            r = self.visit_Assign(asg)
            if isinstance(r, list):
                return r + [ast.copy_location(ast.Return(value=ast.Name(id=tmp, ctx=ast.Load())), node)]
            return node
        if isinstance(node.value, ast.Call):
            tmp = _fresh('ret')
            r = self._try(node.value, [ast.Name(id=tmp, ctx=ast.Store())], node)
            if r is not None:
                return r + [ast.copy_location(ast.Return(value=ast.Name(id=tmp, ctx=ast.Load())), node)]
        return node

    def visit_FunctionDef(self, node):
        if node is self.caller:
            self.generic_visit(node)
        return node

    def visit_Lambda(self, node):
        return node


class _InlineExprs(ast.NodeTransformer):
    def __init__(self, inl, chain, caller, qual_of):
        self.inl = inl
        self.chain = chain
        self.caller = caller
        self.qual_of = qual_of
        self.changed = False

    def visit_Attribute(self, node):
        # self.<prop> where <prop> is a straight-line @property of the class: its expression
        self.generic_visit(node)
        if isinstance(node.ctx, ast.Load) and isinstance(node.value, ast.Name) and node.value.id == 'self':
            owner, h = self.inl.helper(self.chain, node.attr)
            if h is not None and any(isinstance(d, ast.Name) and d.id == 'property' for d in h.decorator_list) \
                    and h is not self.caller and node.attr not in self.inl.no_inline:
                e = self.inl.pure_expr(h, {})
                if e is not None:
                    self.changed = True
                    q = self.qual_of(owner, h)
                    self.inl.inlined_calls[q] = self.inl.inlined_calls.get(q, 0) + 1
                    return ast.copy_location(e, node)
        return node

    def visit_Call(self, node):
        self.generic_visit(node)
        owner, h, hname = self.inl.lookup(self.chain, node)
        if h is not None:
            if self.inl.eligible(h, hname, self.caller):
                b = _bind(h, node)
                if b is not None:
                    e = self.inl.pure_expr(h, b)
                    if e is not None:
                        q = self.qual_of(owner, h)
                        self.inl.inlined_calls[q] = self.inl.inlined_calls.get(q, 0) + 1
                        self.changed = True
                        return ast.copy_location(e, node)
        return node

    def visit_FunctionDef(self, node):
        if node is self.caller:
            self.generic_visit(node)
        return node

    def visit_Lambda(self, node):
        return node


class _FoldConst(ast.NodeTransformer):
    """N6: `if <literal>:` left behind by inlining a helper called with a literal flag
    is replaced by the branch taken."""

    @staticmethod
    def _value(t):
        if isinstance(t, ast.Constant) and isinstance(t.value, (bool, int, str, type(None))):
            return True, bool(t.value)
        if isinstance(t, ast.UnaryOp) and isinstance(t.op, ast.Not):
            k, v = _FoldConst._value(t.operand)
            if k:
                return True, not v
        return False, None

    def visit_If(self, node):
        self.generic_visit(node)
        k, v = self._value(node.test)
        if not k:
            return node
        body = node.body if v else node.orelse
        return body or [ast.copy_location(ast.Pass(), node)]

    def visit_Lambda(self, node):
        return node


def _forward_process_temps(fn):
    """N5: `g = obj.method(args)` used exactly once, as the argument of `<env>.process(g)`,
    is substituted there (a spawn written through a temporary)."""
    loads = {}
    stores = {}
    for n in _walk_no_nested(fn):
        if isinstance(n, ast.Name):
            (loads if isinstance(n.ctx, ast.Load) else stores).setdefault(n.id, []).append(n)
    cands = {}
    for n in _walk_no_nested(fn):
        if isinstance(n, ast.Assign) and len(n.targets) == 1 and isinstance(n.targets[0], ast.Name) and \
                isinstance(n.value, ast.Call):
            nm = n.targets[0].id
            if len(stores.get(nm, [])) == 1 and len(loads.get(nm, [])) == 1:
                cands[nm] = n
    if not cands:
        return
    used = {}
    for n in _walk_no_nested(fn):
        if isinstance(n, ast.Call) and isinstance(n.func, ast.Attribute) and n.func.attr == 'process' and \
                len(n.args) == 1 and isinstance(n.args[0], ast.Name) and n.args[0].id in cands:
            used[n.args[0].id] = n
    if not used:
        return

    class T(ast.NodeTransformer):
        def visit_Assign(self, node):
            for nm, a in cands.items():
                if node is a and nm in used:
                    return None
            return node

        def visit_Call(self, node):
            self.generic_visit(node)
            for nm, c in used.items():
                if node is c:
                    node.args = [cands[nm].value]
            return node

        def visit_Lambda(self, node):
            return node
    T().visit(fn)
    for n in ast.walk(fn):
        if hasattr(n, 'body') and isinstance(n.body, list) and not n.body:
            n.body.append(ast.Pass())


def normalize_module(tree, no_inline, all_classes=None):
    """Normalise one module in place.  Returns {helper qual: inlined call count}."""
    tree = _IfExpDesugar().visit(tree)
    tree = _Unroll().visit(tree)
    classes = {n.name: n for n in tree.body if isinstance(n, ast.ClassDef)}
    known = dict(all_classes or {})
    known.update(classes)

    def chain(c, seen=None):
        seen = seen or set()
        out = [c]
        for b in c.bases:
            bn = b.id if isinstance(b, ast.Name) else (b.attr if isinstance(b, ast.Attribute) else None)
            if bn in known and bn not in seen:
                seen.add(bn)
                out += chain(known[bn], seen)
        return out

    def qual_of(owner, h):
        return '%s.%s' % (owner.name, h.name) if owner is not None else ':%s' % h.name
    inl = Inliner(classes, no_inline)
    for n in tree.body:
        if isinstance(n, ast.FunctionDef) and n.name.startswith('_') and not n.name.startswith('__'):
            n._module_level = True
            inl.module_funcs[n.name] = n
    for c in classes.values():
        ch = chain(c)
        for fn in [b for b in c.body if isinstance(b, ast.FunctionDef)]:
            for _ in range(3):
                t1 = _InlineExprs(inl, ch, fn, qual_of)
                t1.visit(fn)
                t2 = _InlineStmts(inl, ch, fn, qual_of)
                t2.visit(fn)
                if t1.changed or t2.changed:
                    # newly exposed conditional expressions / literal loops
                    _IfExpDesugar().visit(fn)
                    _Unroll().visit(fn)
                    _FoldConst().visit(fn)
                else:
                    break
            _forward_process_temps(fn)
    for fn in [n for n in tree.body if isinstance(n, ast.FunctionDef)]:
        _forward_process_temps(fn)
    ast.fix_missing_locations(tree)
    return inl.inlined_calls
