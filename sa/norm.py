"""E4/E6 -- abstract locations, effects, literals, affine forms."""
import ast
import re
from fractions import Fraction

from .index import AnalysisError, is_spawn, walk_no_nested
from .paths import Frame, local_aliases

COPY_FUNCS = {'list', 'sorted', 'copy', 'deepcopy', 'tuple', 'set', 'frozenset', 'dict', 'deque'}

# Classes with exactly one instance per simulation (Simulation.__init__ builds
# one of each; parse_buffer_config returns one hot and one cold tier).  A
# receiver expression typed as one of these prints as the class name, so the
# same state has the same location name from every module.
SINGLETONS = {'Cluster', 'Scheduler', 'Buffer', 'Simulation', 'Monitor', 'Planner',
              'HotBuffer', 'ColdBuffer', 'Instrument', 'Config'}


_LN = {}


def local_names(func):
    k = id(func.node)
    if k not in _LN:
        from .paths import assigned_names
        _LN[k] = set(assigned_names(func)) | set(func.params) | set(func.kwonly)
    return _LN[k]


class Canon:
    """Canonicaliser bound to a repository (needs class alias tables and
    getter summaries)."""

    def __init__(self, repo):
        self.repo = repo
        self._alias_tables = {}
        self._records = {}
        self._attr_stores = None
        self._getter = {}
        # path environment: (id(frame), local name) -> constant ast node, set by
        # walkers that follow one path (string/bool locals such as `pool`)
        self.penv = {}
        self._comp_env = []

    def class_name(self, name):
        c = self.repo.classes.get(name)
        if c is not None and c.is_subclass_of('Instrument'):
            return 'Instrument'
        return name

    # ---- plain record classes ----------------------------------------
    def record_fields(self, cls_name):
        """{field: position of the constructor argument stored in it} for a class whose
        constructor only files its arguments away (`self.f = param`, one statement each) and
        whose fields are written nowhere else in the package; None for any other class"""
        if cls_name in self._records:
            return self._records[cls_name]
        self._records[cls_name] = None
        c = self.repo.classes.get(cls_name)
        init = c.find_method('__init__') if c is not None else None
        if init is None or init.cls is not c or cls_name in SINGLETONS:
            return None
        params = [a.arg for a in init.node.args.args[1:]]
        if init.node.args.vararg or init.node.args.kwarg or init.node.args.kwonlyargs or not params:
            return None
        fields = {}
        for st in init.node.body:
            if isinstance(st, ast.Expr) and isinstance(st.value, ast.Constant):
                continue
            if not (isinstance(st, ast.Assign) and len(st.targets) == 1 and isinstance(st.targets[0], ast.Attribute)
                    and isinstance(st.targets[0].value, ast.Name) and st.targets[0].value.id == 'self'
                    and isinstance(st.value, ast.Name) and st.value.id in params
                    and st.targets[0].attr not in fields):
                return None
            fields[st.targets[0].attr] = params.index(st.value.id)
        if not fields:
            return None
        # a field may be written only by this constructor: a store through `self` in another class
        # (not a subclass) is to another object; a store through anything else could be to this one
        if self._attr_stores is None:
            self._attr_stores = {}
            for f in self.repo.all_functions(include_inlined=True):
                for n in ast.walk(f.node):
                    if isinstance(n, ast.Attribute) and isinstance(n.ctx, (ast.Store, ast.Del)):
                        owner = f.cls.name if (f.cls is not None and isinstance(n.value, ast.Name)
                                               and n.value.id == 'self') else None
                        self._attr_stores.setdefault(n.attr, []).append((owner, f.qual))
        for fld in fields:
            for owner, qual in self._attr_stores.get(fld, []):
                if qual == init.qual:
                    continue
                oc = self.repo.classes.get(owner) if owner else None
                if oc is None or oc is c or oc.is_subclass_of(cls_name):
                    return None
        self._records[cls_name] = (fields, len(params))
        return self._records[cls_name]

    def record_field(self, base, attr):
        """`Cls(a, b, c).second` -> 'b' on canonical strings; None when not applicable"""
        m = re.match(r'([A-Za-z_]\w*)\(', base)
        if not m or not base.endswith(')'):
            return None
        rf = self.record_fields(m.group(1))
        if rf is None or attr not in rf[0]:
            return None
        parts = tuple_parts(base[m.end() - 1:])
        if parts is None or len(parts) != rf[1] or any(re.match(r'\*|[A-Za-z_]\w*=', x) for x in parts):
            return None
        return parts[rf[0][attr]]

    # ---- class alias tables -------------------------------------------
    def alias_table(self, cls):
        """For `self.X = {k0: {'a': self.Y, ...}}` in __init__:
        (X, 'a') -> Y  (the outer key is ignored: there is one cluster).  Also when the record is
        put together through locals (`state = {...}; self.Y = state['a']; self.X = {k0: state}`):
        two expressions are the same object when they resolve to the same display."""
        if cls.name in self._alias_tables:
            return self._alias_tables[cls.name]
        tab = {}
        init = cls.find_method('__init__')
        if init:
            env = init_objects(init.node)
            attrs = {k[5:]: v for k, v in env.items() if k.startswith('self.')}
            for x, vx in attrs.items():
                if not isinstance(vx, ast.Dict):
                    continue
                for outer in vx.values:
                    outer = resolve_object(outer, env)
                    if not isinstance(outer, ast.Dict):
                        continue
                    for k, v in zip(outer.keys, outer.values):
                        if not isinstance(k, ast.Constant):
                            continue
                        ov = resolve_object(v, env)
                        if not isinstance(ov, (ast.Dict, ast.List, ast.Set, ast.ListComp)):
                            continue
                        for y, vy in attrs.items():
                            if y != x and vy is ov:
                                tab[(x, k.value)] = y
        if init and not tab:
            for n in walk_no_nested(init.node):
                if isinstance(n, ast.Assign) and len(n.targets) == 1:
                    t = n.targets[0]
                    if isinstance(t, ast.Attribute) and isinstance(t.value, ast.Name) \
                            and t.value.id == 'self' and isinstance(n.value, ast.Dict):
                        for outer in n.value.values:
                            if isinstance(outer, ast.Dict):
                                for k, v in zip(outer.keys, outer.values):
                                    if isinstance(k, ast.Constant) and isinstance(
                                            v, ast.Attribute) and isinstance(
                                            v.value, ast.Name) and v.value.id == 'self':
                                        tab[(t.attr, k.value)] = v.attr
        self._alias_tables[cls.name] = tab
        return tab

    # ---- getter summaries ---------------------------------------------
    def getter_of(self, func):
        """If every `return` of func is a copy idiom of one location expression
        (or an empty list), return that expression (in func's frame)."""
        k = func.qual
        if k in self._getter:
            return self._getter[k]
        self._getter[k] = None
        rets = [n for n in walk_no_nested(func.node) if isinstance(n, ast.Return)]
        src = None
        ok = bool(rets)
        for r in rets:
            v = r.value
            if v is None:
                ok = False
                break
            if isinstance(v, ast.List) and not v.elts:
                continue
            e = copy_source(v)
            if e is None:
                ok = False
                break
            if isinstance(e, (ast.List, ast.Tuple)) and not e.elts:
                continue
            if isinstance(e, ast.Name):
                # a local that is either None (nothing there: the getter answers with an empty
                # list on that path) or one location: the getter copies that location
                from .paths import assigned_names
                defs = [d_ for d_ in assigned_names(func).get(e.id, []) if isinstance(d_, ast.Assign)]
                vals = [d_.value for d_ in defs if not (isinstance(d_.value, ast.Constant) and d_.value.value is None)]
                if defs and len(vals) == 1 and isinstance(vals[0], (ast.Attribute, ast.Subscript)) and any(
                        isinstance(r2.value, ast.List) and not r2.value.elts for r2 in rets if r2.value is not None):
                    e = vals[0]
            if src is None:
                src = e
            elif ast.dump(e) != ast.dump(src):
                ok = False
                break
        if ok and src is not None and not func.is_generator:
            self._getter[k] = src
        return self._getter[k]

    # ---- expression canonicalisation ----------------------------------
    def c(self, e, frame, _depth=0):
        """Canonical string of an expression evaluated in `frame`."""
        if _depth > 40:
            return '<deep>'
        d = _depth + 1
        if e is None:
            return 'None'
        if isinstance(e, ast.Constant):
            return repr(e.value)
        if isinstance(e, ast.Name):
            if frame is not None:
                if e.id == 'self' and frame.func.cls is not None and \
                        self.class_name(frame.func.cls.name) in SINGLETONS:
                    return self.class_name(frame.func.cls.name)
                pk = (id(frame), e.id)
                if pk in self.penv:
                    return self.penv[pk]
                if e.id in frame.binding:
                    ex, fr = frame.binding[e.id]
                    if fr is None:   # default value
                        return self.c(ex, Frame(frame.func), d)
                    return self.c(ex, fr, d)
                if e.id == 'self' and frame.func.cls is not None:
                    cn = self.class_name(frame.func.cls.name)
                    if frame.parent is None or cn in SINGLETONS:
                        return cn
                al = frame.aliases
                if e.id in al:
                    return self.c(al[e.id], frame, d)
                ts = {self.class_name(t) for t in self.repo.expr_types(e, frame.func)}
                if len(ts) == 1 and next(iter(ts)) in SINGLETONS:
                    return next(iter(ts))
                if frame.parent is not None and e.id in local_names(frame.func):
                    return '%s#%s' % (frame.func.qual, e.id)
            return e.id
        if isinstance(e, (ast.Attribute, ast.Subscript)) and frame is not None:
            ts = self.repo.expr_types(e, frame.func)
            names = {self.class_name(t) for t in ts}
            if len(names) == 1 and next(iter(names)) in SINGLETONS:
                return next(iter(names))
        if isinstance(e, ast.Attribute):
            base = self.c(e.value, frame, d)
            comp = self.record_field(base, e.attr)            # Ctx(a, b).second is b
            if comp is not None:
                return comp
            return self._rewrite(base + '.' + e.attr)
        if isinstance(e, ast.Subscript):
            base = self.c(e.value, frame, d)
            if isinstance(e.slice, ast.Constant):
                key = repr(e.slice.value)
                if isinstance(e.slice.value, int) and not isinstance(e.slice.value, bool) and e.slice.value >= 0:
                    comp = tuple_component(base, e.slice.value)      # (a, b, c)[1] is b
                    if comp is not None:
                        return comp
            else:
                key = self.c(e.slice, frame, d)
            return self._rewrite('%s[%s]' % (base, key))
        if isinstance(e, ast.Call):
            # copy idioms are transparent; getters resolve to their source
            src = copy_source(e)
            if src is not None and src is not e:
                return self.c(src, frame, d)
            if frame is not None:
                cals, exact = self.repo.resolve_call(e, frame.func)
                if len(cals) == 1 and exact:
                    g = self.getter_of(cals[0])
                    if g is not None:
                        from .paths import bind_args
                        sub = Frame(cals[0], frame, bind_args(cals[0], e, frame), e)
                        # the callee's self must print as the class
                        return self.c(g, sub, d)
                    if 'property' in cals[0].decorators:
                        pass
            fn = self.c(e.func, frame, d)
            args = [self.c(a, frame, d) for a in e.args]
            args += ['%s=%s' % (k.arg, self.c(k.value, frame, d)) for k in e.keywords]
            return '%s(%s)' % (fn, ', '.join(args))
        if isinstance(e, ast.UnaryOp):
            op = {ast.Not: 'not ', ast.USub: '-', ast.UAdd: '+', ast.Invert: '~'}[type(e.op)]
            return '(%s%s)' % (op, self.c(e.operand, frame, d))
        if isinstance(e, ast.BinOp):
            return '(%s %s %s)' % (self.c(e.left, frame, d), _OPS.get(type(e.op), '?'),
                                   self.c(e.right, frame, d))
        if isinstance(e, ast.BoolOp):
            j = ' and ' if isinstance(e.op, ast.And) else ' or '
            return '(' + j.join(self.c(v, frame, d) for v in e.values) + ')'
        if isinstance(e, ast.Compare):
            s = self.c(e.left, frame, d)
            for op, r in zip(e.ops, e.comparators):
                s += ' %s %s' % (_CMP[type(op)], self.c(r, frame, d))
            return '(' + s + ')'
        if isinstance(e, ast.IfExp):
            return '(%s if %s else %s)' % (self.c(e.body, frame, d), self.c(e.test, frame, d),
                                           self.c(e.orelse, frame, d))
        if isinstance(e, (ast.Tuple, ast.List)):
            br = '()' if isinstance(e, ast.Tuple) else '[]'
            return br[0] + ', '.join(self.c(x, frame, d) for x in e.elts) + br[1]
        if isinstance(e, ast.ListComp) or isinstance(e, ast.GeneratorExp) or isinstance(e, ast.SetComp):
            src = copy_source(e)
            if src is not None and src is not e:
                return self.c(src, frame, d)
        if isinstance(e, ast.Starred):
            return '*' + self.c(e.value, frame, d)
        try:
            return ast.unparse(e)
        except Exception:
            return '<expr>'

    def _rewrite(self, s):
        """Apply class alias tables: Cluster._clusters[k]['resources'] -> Cluster._resources"""
        # s looks like  Base.attr[key]['name']...  ; rewrite greedy on prefix
        for cname, cls in self.repo.classes.items():
            if not s.startswith(cname + '.'):
                continue
            tab = self.alias_table(cls)
            if not tab:
                continue
            for (attr, key), repl in tab.items():
                pre = '%s.%s[' % (cname, attr)
                if s.startswith(pre):
                    # find matching bracket of first subscript
                    i = _match(s, len(pre) - 1)
                    if i < 0:
                        continue
                    rest = s[i + 1:]
                    want = '[%r]' % (key,)
                    if rest.startswith(want):
                        return '%s.%s%s' % (cname, repl, rest[len(want):])
        return s

    # ---- provenance expressions ----------------------------------------
    def p(self, e, frame, _depth=0, _seen=None):
        """Provenance string: like c() but every local is replaced by the
        expression(s) assigned to it anywhere in the function (flow-insensitive;
        several definitions print as {a|b}); copy idioms are transparent; loop and
        comprehension variables print as elem(<iterable>)."""
        from .paths import assigned_names
        if _depth > 25:
            return '<deep>'
        d = _depth + 1
        seen = _seen or frozenset()
        if e is None:
            return 'None'
        if isinstance(e, ast.Constant):
            return repr(e.value)
        if isinstance(e, ast.Name):
            if frame is None:
                return e.id
            if e.id == 'self' and frame.func.cls is not None:
                cn = self.class_name(frame.func.cls.name)
                if frame.parent is None or cn in SINGLETONS:
                    return cn
            if e.id in frame.binding:
                ex, fr = frame.binding[e.id]
                return self.p(ex, fr if fr is not None else Frame(frame.func), d, seen)
            key = (id(frame.func.node), e.id)
            for env in reversed(self._comp_env):
                if key in env:
                    return env[key]
            if key in seen:
                return e.id
            defs = assigned_names(frame.func).get(e.id)
            if not defs or e.id in frame.func.params:
                ts = {self.class_name(t) for t in self.repo.expr_types(e, frame.func)}
                if len(ts) == 1 and next(iter(ts)) in SINGLETONS:
                    return next(iter(ts))
                return e.id
            alts = set()
            for n in defs:
                s2 = seen | {key}
                if isinstance(n, ast.Assign):
                    tgt_is_name = any(isinstance(t, ast.Name) and t.id == e.id for t in n.targets)
                    if tgt_is_name:
                        from .paths import stale_copy
                        if len(defs) == 1 and stale_copy(frame.func, e.id, n):
                            alts.add('old(%s)' % self.p(n.value, frame, d, s2))     # the value BEFORE a later write
                        else:
                            alts.add(self.p(n.value, frame, d, s2))
                    else:
                        idx = None
                        for t in n.targets:
                            if isinstance(t, (ast.Tuple, ast.List)):
                                for j, x in enumerate(t.elts):
                                    if isinstance(x, ast.Name) and x.id == e.id:
                                        idx = j
                        if idx is not None and isinstance(n.value, (ast.Tuple, ast.List)) and \
                                idx < len(n.value.elts):
                            alts.add(self.p(n.value.elts[idx], frame, d, s2))
                        elif idx is not None:
                            alts.add('%s[%d]' % (self.p(n.value, frame, d, s2), idx))
                        else:
                            alts.add('unpack(%s)' % self.p(n.value, frame, d, s2))
                elif isinstance(n, ast.AugAssign):
                    alts.add('aug(%s)' % self.p(n.value, frame, d, s2))
                elif isinstance(n, (ast.For, ast.AsyncFor, ast.comprehension)):
                    alts.add(self._target_p(n.target, n.iter, e.id, frame, d, s2))
                elif isinstance(n, ast.AnnAssign) and n.value is not None:
                    alts.add(self.p(n.value, frame, d, s2))
                else:
                    alts.add(e.id)
            if alts and alts <= {'[]', '{}', 'list()', 'dict()'}:
                built = self._built(e.id, frame, d, seen | {key})
                if built is not None:
                    return built
            if len(alts) == 1:
                return next(iter(alts))
            return '{' + '|'.join(sorted(alts)) + '}'
        if isinstance(e, ast.Attribute):
            if frame is not None:
                ts = {self.class_name(t) for t in self.repo.expr_types(e, frame.func)}
                if len(ts) == 1 and next(iter(ts)) in SINGLETONS:
                    return next(iter(ts))
            base = self.p(e.value, frame, d, seen)
            comp = self.record_field(base, e.attr)
            if comp is not None:
                return comp
            return self._rewrite(base + '.' + e.attr)
        if isinstance(e, ast.Subscript):
            src = copy_source(e, order=True)
            if src is not None:
                return self.p(src, frame, d, seen)
            if frame is not None:
                ts = {self.class_name(t) for t in self.repo.expr_types(e, frame.func)}
                if len(ts) == 1 and next(iter(ts)) in SINGLETONS:
                    return next(iter(ts))
            base = self.p(e.value, frame, d, seen)
            if isinstance(e.slice, ast.Slice):
                key = ':'.join(self.p(x, frame, d, seen) if x is not None else ''
                               for x in (e.slice.lower, e.slice.upper, e.slice.step))
            else:
                key = self.p(e.slice, frame, d, seen)
                if isinstance(e.slice, ast.Constant) and isinstance(e.slice.value, int) and not isinstance(
                        e.slice.value, bool) and e.slice.value >= 0:
                    comp = tuple_component(base, e.slice.value)
                    if comp is not None:
                        return comp
                sm = split_map(base)
                if sm is not None and sm[0] == key and ' if ' not in sm[2]:
                    return sm[1]          # map[K: V for D][K] is V
            return self._rewrite('%s[%s]' % (base, key))
        if isinstance(e, (ast.ListComp, ast.GeneratorExp, ast.SetComp)):
            src = copy_source(e, order=True)
            if src is not None:
                return self.p(src, frame, d, seen)
            g = e.generators[0]
            self._comp_bind(e.generators, frame, d, seen)
            try:
                conds = ''.join(' if ' + self.p(c, frame, d, seen) for c in g.ifs)
                kind = 'set' if isinstance(e, ast.SetComp) else 'seq'
                itp, c0 = flatten_iter(self._iter_p(g.iter, frame, d, seen))
                return '%s[%s for %s%s]' % (kind, self.p(e.elt, frame, d, seen), itp, c0 + conds)
            finally:
                self._comp_env.pop()
        if isinstance(e, ast.DictComp) and len(e.generators) == 1:
            g = e.generators[0]
            self._comp_bind(e.generators, frame, d, seen)
            try:
                conds = ''.join(' if ' + self.p(c, frame, d, seen) for c in g.ifs)
                itp, c0 = flatten_iter(self._iter_p(g.iter, frame, d, seen))
                return 'map[%s: %s for %s%s]' % (self.p(e.key, frame, d, seen), self.p(e.value, frame, d, seen),
                                                 itp, c0 + conds)
            finally:
                self._comp_env.pop()
        if isinstance(e, ast.Call):
            if isinstance(e.func, ast.Name) and e.func.id == 'dict' and len(e.args) == 1 and not e.keywords \
                    and isinstance(e.args[0], ast.Call) and isinstance(e.args[0].func, ast.Name) \
                    and e.args[0].func.id == 'zip' and len(e.args[0].args) == 2:
                zm = zip_map(self.p(e.args[0].args[0], frame, d, seen), self.p(e.args[0].args[1], frame, d, seen))
                if zm is not None:
                    return zm
            if isinstance(e.func, ast.Name) and e.func.id == 'dict' and len(e.args) == 1 and not e.keywords:
                # dict(<sequence of (key, value) pairs>) is the map it spells out
                sp = split_seq(self.p(e.args[0], frame, d, seen))
                if sp is not None:
                    k, v = tuple_component(sp[0], 0), tuple_component(sp[0], 1)
                    if k is not None and v is not None and tuple_component(sp[0], 2) is None:
                        return 'map[%s: %s for %s%s]' % (k, v, sp[1], sp[2])
            src = copy_source(e, order=True)
            if src is not None:
                return self.p(src, frame, d, seen)
            if frame is not None:
                cals, exact = self.repo.resolve_call(e, frame.func)
                if len(cals) == 1 and exact:
                    g = self.getter_of(cals[0])
                    if g is not None:
                        from .paths import bind_args
                        sub = Frame(cals[0], frame, bind_args(cals[0], e, frame), e)
                        return self.p(g, sub, d, seen)
            inl = self._inline_helper(e, frame, d, seen)
            if inl is not None:
                return inl
            fn = e.func
            if isinstance(fn, ast.Attribute):
                fs = self.p(fn.value, frame, d, seen) + '.' + fn.attr
            else:
                fs = self.p(fn, frame, d, seen)
            args = [self.p(a, frame, d, seen) for a in e.args]
            args += ['%s=%s' % (k.arg, self.p(k.value, frame, d, seen)) for k in e.keywords]
            return '%s(%s)' % (fs, ', '.join(args))
        if isinstance(e, ast.BinOp):
            return '(%s %s %s)' % (self.p(e.left, frame, d, seen), _OPS.get(type(e.op), '?'),
                                   self.p(e.right, frame, d, seen))
        if isinstance(e, ast.UnaryOp):
            op = {ast.Not: 'not ', ast.USub: '-', ast.UAdd: '+', ast.Invert: '~'}[type(e.op)]
            return '(%s%s)' % (op, self.p(e.operand, frame, d, seen))
        if isinstance(e, ast.BoolOp):
            j = ' and ' if isinstance(e.op, ast.And) else ' or '
            return '(' + j.join(self.p(v, frame, d, seen) for v in e.values) + ')'
        if isinstance(e, ast.Compare):
            s = self.p(e.left, frame, d, seen)
            for op, r in zip(e.ops, e.comparators):
                s += ' %s %s' % (_CMP[type(op)], self.p(r, frame, d, seen))
            return '(' + s + ')'
        if isinstance(e, ast.IfExp):
            return '{%s|%s}' % tuple(sorted([self.p(e.body, frame, d, seen),
                                             self.p(e.orelse, frame, d, seen)]))
        if isinstance(e, (ast.Tuple, ast.List)):
            br = '()' if isinstance(e, ast.Tuple) else '[]'
            return br[0] + ', '.join(self.p(x, frame, d, seen) for x in e.elts) + br[1]
        if isinstance(e, ast.Dict):
            return '{' + ', '.join('%s: %s' % (self.p(k, frame, d, seen), self.p(v, frame, d, seen))
                                   for k, v in zip(e.keys, e.values) if k is not None) + '}'
        if isinstance(e, ast.JoinedStr):
            parts = []
            for v in e.values:
                if isinstance(v, ast.FormattedValue):
                    parts.append('{' + self.p(v.value, frame, d, seen) + '}')
                elif isinstance(v, ast.Constant):
                    parts.append(str(v.value))
            return 'f"' + ''.join(parts) + '"'
        if isinstance(e, ast.Starred):
            return '*' + self.p(e.value, frame, d, seen)
        try:
            return ast.unparse(e)
        except Exception:
            return '<expr>'

    def _target_p(self, target, it, name, frame, d, s2):
        """provenance of the loop / comprehension variable `name` bound by `target in it`"""
        if isinstance(it, ast.Name) and frame is not None and it.id not in frame.binding:
            from .paths import assigned_names
            defs = assigned_names(frame.func).get(it.id, [])
            if len(defs) == 1 and isinstance(defs[0], ast.Assign) and len(defs[0].targets) == 1 and isinstance(
                    defs[0].targets[0], ast.Name) and isinstance(defs[0].value, ast.Call):
                it = defs[0].value
        if isinstance(target, ast.Name):
            return _elem_of(self._iter_p(it, frame, d, s2))
        if isinstance(target, ast.Tuple) and len(target.elts) == 2 and isinstance(
                it, ast.Call) and isinstance(it.func, ast.Attribute) and it.func.attr == 'items' \
                and not it.args and all(isinstance(x, ast.Name) for x in target.elts):
            D = self.p(it.func.value, frame, d, s2)
            if target.elts[0].id == name:
                return 'elem(%s)' % D
            return '%s[elem(%s)]' % (D, D)
        if isinstance(target, ast.Tuple) and len(target.elts) == 2 and isinstance(it, ast.Call) and isinstance(
                it.func, ast.Name) and it.func.id in ('sorted', 'list', 'tuple', 'reversed') and it.args and \
                isinstance(it.args[0], ast.Call) and isinstance(it.args[0].func, ast.Attribute) and \
                it.args[0].func.attr == 'items' and not it.args[0].args and \
                all(isinstance(x, ast.Name) for x in target.elts):
            # a snapshot of D.items() in some order: the pair is (k, D[k])
            K = '%s[0]' % _elem_of(self.p(it, frame, d, s2))
            if target.elts[0].id == name:
                return K
            return '%s[%s]' % (self.p(it.args[0].func.value, frame, d, s2), K)
        if isinstance(target, ast.Tuple) and isinstance(it, ast.Call) and isinstance(
                it.func, ast.Name) and it.func.id == 'enumerate' and len(it.args) == 1 and \
                len(target.elts) == 2 and isinstance(target.elts[1], ast.Name) and \
                target.elts[1].id == name:
            return 'elem(%s)' % self.p(it.args[0], frame, d, s2)
        if isinstance(target, (ast.Tuple, ast.List)) and all(
                isinstance(x, ast.Name) for x in target.elts):
            j = [x.id for x in target.elts].index(name)
            el = _elem_of(self._iter_p(it, frame, d, s2))
            comp = tuple_component(el, j)
            return comp if comp is not None else '%s[%d]' % (el, j)
        return 'elem.part(%s)' % self.p(it, frame, d, s2)

    def _comp_bind(self, gens, frame, d, seen):
        """push the provenance of the variables bound by comprehension generators"""
        env = {}
        self._comp_env.append(env)
        for g in gens:
            for x in ast.walk(g.target):
                if isinstance(x, ast.Name):
                    env[(id(frame.func.node) if frame is not None else 0, x.id)] = \
                        self._target_p(g.target, g.iter, x.id, frame, d, seen)

    def _iter_p(self, it, frame, d, seen):
        """provenance of an iterable; D.items() / D.keys() iterate D"""
        if isinstance(it, ast.Call) and isinstance(it.func, ast.Attribute) and it.func.attr in ('items', 'keys') \
                and not it.args:
            return self.p(it.func.value, frame, d, seen)
        return self.p(it, frame, d, seen)

    def _built(self, name, frame, d, seen):
        """A local initialised empty and filled at exactly one site inside a for-loop is
        the comprehension it spells out: seq[E for I (if C)] / map[K: V for I (if C)]."""
        f = frame.func
        sites = []
        for n in walk_no_nested(f.node):
            if isinstance(n, ast.Call) and isinstance(n.func, ast.Attribute) and isinstance(
                    n.func.value, ast.Name) and n.func.value.id == name:
                if n.func.attr == 'append' and len(n.args) == 1:
                    sites.append(('seq', n, None, n.args[0]))
                elif n.func.attr in MUTATORS:
                    return None
            elif isinstance(n, ast.Assign):
                for t in n.targets:
                    if isinstance(t, ast.Subscript) and isinstance(t.value, ast.Name) and t.value.id == name:
                        sites.append(('map', n, t.slice, n.value))
            elif isinstance(n, (ast.AugAssign, ast.Delete)):
                tg = [n.target] if isinstance(n, ast.AugAssign) else n.targets
                for t in tg:
                    if any(isinstance(x, ast.Name) and x.id == name for x in ast.walk(t)):
                        return None
        if len(sites) != 1:
            return None
        kind, node, k, v = sites[0]
        # innermost enclosing for-loop and the conditions between it and the site
        from .index import guard_stack
        loop = None
        conds = []
        ns = guard_stack(f.node, node) or []
        fors = [i for i, x in enumerate(ns) if x[0] == 'for']
        if fors and not any(x[0] == 'while' for x in ns[fors[-1] + 1:]):
            from .index import loop_leaves_early
            loop = ns[fors[-1]][1]
            conds = [x for x in ns[fors[-1] + 1:] if x[0] == 'if']
            if loop_leaves_early(loop):
                loop = None      # a break/return drops later elements: not a comprehension
        if loop is None:
            return None
        cs = ''
        for _, t, pol in conds:
            cs += ' if %s%s' % ('' if pol else 'not ', self.p(t, frame, d, seen))
        it = self._iter_p(loop.iter, frame, d, seen)
        if kind == 'seq':
            return 'seq[%s for %s%s]' % (self.p(v, frame, d, seen), it, cs)
        return 'map[%s: %s for %s%s]' % (self.p(k, frame, d, seen), self.p(v, frame, d, seen), it, cs)

    def seq_parts(self, e, frame):
        """Structured view of a list value: for a list comprehension, or a local list built by
        one append inside a for-loop: (elt ast, iter ast, [(cond ast, polarity)], loop var names).
        None for anything else."""
        if isinstance(e, (ast.ListComp, ast.GeneratorExp)) and len(e.generators) == 1:
            g = e.generators[0]
            return (e.elt, g.iter, [(c, True) for c in g.ifs],
                    [x.id for x in ast.walk(g.target) if isinstance(x, ast.Name)])
        if isinstance(e, ast.Name) and frame is not None:
            f = frame.func
            from .paths import assigned_names
            defs = assigned_names(f).get(e.id, [])
            if len(defs) == 1 and isinstance(defs[0], ast.Assign) and isinstance(defs[0].value, ast.ListComp):
                return self.seq_parts(defs[0].value, frame)
            if len(defs) == 1 and isinstance(defs[0], ast.Assign) and len(defs[0].targets) == 1 and isinstance(
                    defs[0].value, ast.Name) and defs[0].value.id != e.id:
                return self.seq_parts(defs[0].value, frame)     # a second name for the list
            if not defs or not all(isinstance(d, ast.Assign) and isinstance(d.value, ast.List)
                                   and not d.value.elts for d in defs):
                return None
            sites = [n for n in walk_no_nested(f.node) if isinstance(n, ast.Call) and isinstance(
                n.func, ast.Attribute) and isinstance(n.func.value, ast.Name) and n.func.value.id == e.id
                and n.func.attr in MUTATORS]
            if len(sites) != 1 or sites[0].func.attr != 'append' or len(sites[0].args) != 1:
                return None
            node = sites[0]
            from .index import guard_stack
            ns = guard_stack(f.node, node)
            if not ns:
                return None
            fors = [i for i, x in enumerate(ns) if x[0] == 'for']
            if not fors or any(x[0] == 'while' for x in ns[fors[-1] + 1:]):
                return None
            loop = ns[fors[-1]][1]
            from .index import loop_leaves_early
            if loop_leaves_early(loop):
                return None
            conds = [(x[1], x[2]) for x in ns[fors[-1] + 1:] if x[0] == 'if']
            return (node.args[0], loop.iter, conds, [x.id for x in ast.walk(loop.target) if isinstance(x, ast.Name)])
        return None

    # helper methods whose NAME carries meaning for the rules are never inlined
    NO_INLINE = {'_create_observation_task_id', 'get_machine_from_id', 'is_task_finished',
                 'get_idle_resources', 'get_available_resources', 'current_available_resources',
                 '_calc_task_delay', '_wait_for_transfer', 'calculate_runtime', 'generate_delay',
                 '_create_random_value_from_runtime', '_find_pred_allocations', '_workflow_to_nx',
                 '_calc_workflow_est', 'has_capacity_for', 'check_buffer_capacity', 'check_ingest_capacity',
                 'is_observation_provisioned', 'is_occupied', '_provision_resources', '_max_resource_provision',
                 'process_incoming_data_stream', 'receive_observation', 'transfer_observation', 'remove',
                 'observation_for_transfer', 'next_observation_for_processing', 'finish_observation',
                 'begin_observation', 'is_ready', 'is_finished', 'mark_observation_finished', 'to_df',
                 # private helpers that exist today and that a rule names as its anchor (a NEW helper
                 # introduced by an extract-method refactoring is inlined; these are judged as they are)
                 '_add_event', '_generate_ingest_tasks', '_set_machine_available', '_set_machine_occupied',
                 '_generate_current_schedule', '_process_current_schedule', '_update_current_plan',
                 '_generate_final_task_data', '_calc_observation_delay', '_add_idle_resource',
                 '_remove_available_resource', '_update_available_resources', '_reset_idle_resources',
                 '_attempt_machine_allocation', '_compose_hdf5_output', '_initialise_shadow_workflows',
                 '_run_scheduling', '_cluster_to_shadow_format', '_build_simulations',
                 '_review_experiment_combinations', '_get_batch_observations', '_update_usage_data'}

    def _inline_helper(self, call, frame, d, seen):
        """provenance of a call to a small side-effect-free helper of the same class
        hierarchy: the provenance of what it returns (parameters bound)"""
        if frame is None or d > 12:
            return None
        fn = call.func
        if not (isinstance(fn, ast.Attribute) and isinstance(fn.value, ast.Name) and fn.value.id == 'self'):
            return None
        if fn.attr in self.NO_INLINE or frame.func.cls is None or not fn.attr.startswith('_') or \
                fn.attr.startswith('__'):
            return None
        cal = frame.func.cls.find_method(fn.attr)
        if cal is None or cal.is_generator or cal is frame.func:
            return None
        fr = frame
        while fr is not None:
            if fr.func is cal:
                return None
            fr = fr.parent
        rets = [n for n in walk_no_nested(cal.node) if isinstance(n, ast.Return)]
        if len(rets) != 1 or rets[0].value is None:
            return None
        # no writes to attributes / foreign objects
        for n in walk_no_nested(cal.node):
            if isinstance(n, (ast.Assign, ast.AugAssign)):
                tg = n.targets if isinstance(n, ast.Assign) else [n.target]
                for t in tg:
                    if isinstance(t, ast.Attribute):
                        return None
            if isinstance(n, (ast.While, ast.Raise, ast.Yield)):
                return None
        from .paths import bind_args
        sub = Frame(cal, frame, bind_args(cal, call, frame), call)
        return self.p(rets[0].value, sub, d, seen)

    def loc(self, e, frame):
        """Canonical location string of an lvalue-like expression, else None."""
        if isinstance(e, (ast.Attribute, ast.Subscript, ast.Name, ast.Call)):
            return self.c(e, frame)
        return None


def _elem_of(it):
    """a generic element of the iterable with provenance `it`: elements of a mapped
    sequence seq[F for I] are F itself (F already speaks about elem(I))"""
    sp = split_seq(it)
    if sp is not None:
        return sp[0]
    return 'elem(%s)' % it


def tuple_component(s, j):
    """component j of a tuple display string '(a, b, c)'; None when s is not one"""
    parts = tuple_parts(s)
    if parts is None or len(parts) < 2 or j >= len(parts):
        return None
    return parts[j]


def tuple_parts(s):
    """the top-level components of '(a, b, c)'; None when s is not one bracketed group"""
    if not (s.startswith('(') and s.endswith(')')):
        return None
    depth = 0
    for i, ch in enumerate(s):
        if ch in '([{':
            depth += 1
        elif ch in ')]}':
            depth -= 1
            if depth == 0 and i != len(s) - 1:
                return None
    body = s[1:-1]
    parts, depth, cur = [], 0, ''
    for ch in body:
        if ch in '([{':
            depth += 1
        elif ch in ')]}':
            depth -= 1
        if ch == ',' and depth == 0:
            parts.append(cur.strip())
            cur = ''
        else:
            cur += ch
    if cur.strip():
        parts.append(cur.strip())
    return parts


def flatten_iter(itp):
    """a comprehension over seq[E for I if C] ranges over I (its variable already stands for E)"""
    sp = split_seq(itp)
    if sp is None:
        return itp, ''
    inner, conds = flatten_iter(sp[1])
    return inner, conds + sp[2]


def split_seq(s):
    """'seq[E for I if C]' -> (E, I, C or '') by bracket depth; None otherwise"""
    if not (s.startswith('seq[') and s.endswith(']')) or _match(s, 3) != len(s) - 1:
        return None
    body = s[4:-1]
    depth = 0
    cut = []
    i = 0
    while i < len(body):
        ch = body[i]
        if ch in '([{':
            depth += 1
        elif ch in ')]}':
            depth -= 1
        elif depth == 0 and body.startswith(' for ', i) and not cut:
            cut.append(i)
        elif depth == 0 and cut and body.startswith(' if ', i) and len(cut) == 1:
            cut.append(i)
        i += 1
    if not cut:
        return None
    if len(cut) == 1:
        return body[:cut[0]], body[cut[0] + 5:], ''
    return body[:cut[0]], body[cut[0] + 5:cut[1]], body[cut[1]:]


def split_map(s):
    """'map[K: V for D]' -> (K, V, D) by bracket depth; None otherwise"""
    if not (s.startswith('map[') and s.endswith(']')) or _match(s, 3) != len(s) - 1:
        return None
    body = s[4:-1]
    depth = 0
    colon = None
    fors = []
    i = 0
    while i < len(body):
        ch = body[i]
        if ch in '([{':
            depth += 1
        elif ch in ')]}':
            depth -= 1
        elif depth == 0 and colon is None and body.startswith(': ', i):
            colon = i
        elif depth == 0 and colon is not None and body.startswith(' for ', i):
            fors.append(i)
        i += 1
    if colon is None or len(fors) != 1:
        return None
    return body[:colon], body[colon + 2:fors[0]], body[fors[0] + 5:]


def zip_map(pa, pb):
    """dict(zip(seq[K for D], seq[V for D.values()])) is map[K: V' for D] with the value
    variable rewritten to D[elem(D)]; same for two sequences over one iterable."""
    a, b = split_seq(pa), split_seq(pb)
    if a is None and b is not None and not b[2] and b[1] == pa:
        # zip(D, seq[V for D]): the keys are the elements of D themselves
        return 'map[elem(%s): %s for %s]' % (pa, b[0], pa)
    if a is None or b is None or a[2] or b[2]:
        return None
    if b[1] == a[1]:
        return 'map[%s: %s for %s]' % (a[0], b[0], a[1])
    if b[1] == a[1] + '.values()':
        v = b[0].replace('elem(%s.values())' % a[1], '%s[elem(%s)]' % (a[1], a[1]))
        return 'map[%s: %s for %s]' % (a[0], v, a[1])
    return None


def resolve_object(e, env, d=0):
    """the display (allocation site) an expression of a constructor denotes: locals and self
    attributes are looked up, constant subscripts of dict displays are followed"""
    if d > 8 or e is None:
        return e
    if isinstance(e, ast.Name) and e.id in env:
        return resolve_object(env[e.id], env, d + 1)
    if isinstance(e, ast.Attribute) and isinstance(e.value, ast.Name) and e.value.id == 'self' and 'self.' + e.attr in env:
        return resolve_object(env['self.' + e.attr], env, d + 1)
    if isinstance(e, ast.Subscript) and isinstance(e.slice, ast.Constant):
        base = resolve_object(e.value, env, d + 1)
        if isinstance(base, ast.Dict):
            for k, v in zip(base.keys, base.values):
                if isinstance(k, ast.Constant) and k.value == e.slice.value:
                    return resolve_object(v, env, d + 1)
    return e


def init_objects(fn):
    """{local name | 'self.attr': value node} after the top-level assignments of a constructor
    (single assignment per name; conditional statements are not followed)"""
    env = {}
    for st in fn.body:
        if isinstance(st, ast.Assign) and len(st.targets) == 1:
            t = st.targets[0]
            if isinstance(t, ast.Name):
                env[t.id] = resolve_object(st.value, env)
            elif isinstance(t, ast.Attribute) and isinstance(t.value, ast.Name) and t.value.id == 'self':
                env['self.' + t.attr] = resolve_object(st.value, env)
    return env


class ProvCanon(Canon):
    """Canonicaliser whose c() is the provenance form p(): locals assigned
    from calls are seen through (value comparisons, not mutation targets)."""

    def c(self, e, frame, _depth=0):
        return self.p(e, frame, _depth)


def _match(s, i):
    """index of the bracket closing the '[' at s[i]"""
    depth = 0
    for j in range(i, len(s)):
        if s[j] == '[':
            depth += 1
        elif s[j] == ']':
            depth -= 1
            if depth == 0:
                return j
    return -1


_OPS = {ast.Add: '+', ast.Sub: '-', ast.Mult: '*', ast.Div: '/', ast.FloorDiv: '//',
        ast.Mod: '%', ast.Pow: '**', ast.BitAnd: '&', ast.BitOr: '|', ast.BitXor: '^',
        ast.LShift: '<<', ast.RShift: '>>', ast.MatMult: '@'}
_CMP = {ast.Eq: '==', ast.NotEq: '!=', ast.Lt: '<', ast.LtE: '<=', ast.Gt: '>',
        ast.GtE: '>=', ast.Is: 'is', ast.IsNot: 'is not', ast.In: 'in', ast.NotIn: 'not in'}


ORDER_COPY = {'list', 'tuple', 'copy', 'deepcopy', 'dict', 'deque'}


def copy_source(v, order=False):
    """If v is a copy idiom of an expression S, return S; else None.
    Idioms: [x for x in S], list(S), sorted(S), copy(S), copy.copy(S), S[:], S.copy(),
    list(S.keys())."""
    if isinstance(v, ast.ListComp) and len(v.generators) == 1:
        g = v.generators[0]
        if isinstance(g.target, ast.Name) and isinstance(v.elt, ast.Name) \
                and v.elt.id == g.target.id and not g.ifs:
            return g.iter
        return None
    if isinstance(v, ast.Call):
        fn = v.func
        name = fn.id if isinstance(fn, ast.Name) else (
            fn.attr if isinstance(fn, ast.Attribute) else None)
        if name in (ORDER_COPY if order else COPY_FUNCS) and len(v.args) == 1 and not v.keywords and (
                isinstance(fn, ast.Name) or (isinstance(fn.value, ast.Name)
                                             and fn.value.id == 'copy')):
            return v.args[0]
        if name == 'copy' and isinstance(fn, ast.Attribute) and not v.args:
            return fn.value
        return None
    if isinstance(v, ast.Subscript) and isinstance(v.slice, ast.Slice) and \
            v.slice.lower is None and v.slice.upper is None and v.slice.step is None:
        return v.value
    return None


# --------------------------------------------------------------------------
# effects

MUTATORS = {'append', 'remove', 'pop', 'insert', 'extend', 'clear', 'add', 'popleft', 'appendleft',
            'update', 'discard', 'popitem', 'setdefault', 'sort', 'reverse'}


class Effect:
    __slots__ = ('kind', 'loc', 'arg', 'node', 'ev', 'value')

    def __init__(self, kind, loc, arg, node, ev, value=None):
        self.kind = kind    # append remove pop insert ... assign aug del store call spawn
        self.loc = loc      # canonical location string
        self.arg = arg      # canonical argument / value string
        self.node = node
        self.ev = ev
        self.value = value  # ast value node

    def __repr__(self):
        return '<%s %s %s @%s>' % (self.kind, self.loc, self.arg,
                                   getattr(self.node, 'lineno', '?'))


def track_path_consts(canon, ev):
    """update canon.penv with constant assignments to locals made by this event"""
    if ev.kind != 'stmt' or ev.extra == 'with':
        return
    n = ev.node
    if isinstance(n, ast.Assign):
        for t in n.targets:
            for x in ast.walk(t):
                if isinstance(x, ast.Name):
                    canon.penv.pop((id(ev.frame), x.id), None)
        if len(n.targets) == 1 and isinstance(n.targets[0], ast.Name):
            nm = n.targets[0].id
            if isinstance(n.value, ast.Constant) and isinstance(n.value.value, (str, bool)):
                canon.penv[(id(ev.frame), nm)] = repr(n.value.value)
            elif isinstance(n.value, (ast.Attribute, ast.Subscript)) and _pure_loc(n.value):
                # path-sensitive alias of a location (source = self._resources['available'])
                canon.penv[(id(ev.frame), nm)] = canon.c(n.value, ev.frame)
    elif isinstance(n, (ast.AugAssign, ast.AnnAssign)) and isinstance(n.target, ast.Name):
        canon.penv.pop((id(ev.frame), n.target.id), None)


def _pure_loc(e):
    if isinstance(e, (ast.Name, ast.Constant)):
        return True
    if isinstance(e, ast.Attribute):
        return _pure_loc(e.value)
    if isinstance(e, ast.Subscript):
        return _pure_loc(e.value) and _pure_loc(e.slice)
    return False


def effects_along(canon, events):
    """[(event, [Effect])] following one path, with path-sensitive constant locals"""
    saved = canon.penv
    canon.penv = {}
    out = []
    try:
        for e in events:
            out.append((e, effects_of_event(canon, e)))
            track_path_consts(canon, e)
    finally:
        canon.penv = saved
    return out


def effects_of_event(canon, ev):
    """Heap effects performed by one stmt/test event (not descending into
    nested function bodies)."""
    out = []
    node = ev.node
    fr = ev.frame
    roots = [node]
    if ev.kind == 'stmt' and ev.extra == 'with':
        roots = [it.context_expr for it in node.items]
    elif ev.kind in ('for', 'for0'):
        roots = [node.iter]
    elif ev.kind not in ('stmt', 'test'):
        return out
    for root in roots:
        if ev.kind == 'stmt' and ev.extra != 'with':
            if isinstance(root, ast.Assign):
                for t in root.targets:
                    out += _store(canon, t, root.value, fr, root, ev, 'assign')
            elif isinstance(root, ast.AnnAssign) and root.value is not None:
                out += _store(canon, root.target, root.value, fr, root, ev, 'assign')
            elif isinstance(root, ast.AugAssign):
                if not isinstance(root.target, ast.Name) or _is_heap_name(root.target, fr):
                    op = _OPS.get(type(root.op), '?')
                    out.append(Effect('aug' + op, canon.c(root.target, fr),
                                      canon.c(root.value, fr), root, ev, root.value))
                elif isinstance(root.target, ast.Name) and isinstance(
                        root.op, (ast.Sub, ast.Add, ast.BitOr)):
                    # set -= / |= on a local name mutates the object in place
                    out.append(Effect('aug' + _OPS.get(type(root.op), '?'),
                                      canon.c(root.target, fr), canon.c(root.value, fr),
                                      root, ev, root.value))
            elif isinstance(root, ast.Delete):
                for t in root.targets:
                    if isinstance(t, ast.Subscript) and not isinstance(t.slice, ast.Slice):
                        # del D[k] has the effect of D.pop(k)
                        out.append(Effect('pop', canon.c(t.value, fr), canon.c(t.slice, fr), root, ev, t.slice))
                    else:
                        out.append(Effect('del', canon.c(t, fr), None, root, ev))
        for n in _walk_expr(root):
            if isinstance(n, ast.Call) and isinstance(n.func, ast.Attribute) and \
                    n.func.attr in MUTATORS:
                arg = canon.c(n.args[0], fr) if n.args else None
                recv = n.func.value
                loc = canon.c(recv, fr)
                # a mutator applied to a call result / copy idiom changes a temporary,
                # not the location the copy was taken from
                if isinstance(recv, (ast.Call, ast.ListComp, ast.List, ast.Dict, ast.Set)) or \
                        copy_source(recv) is not None:
                    loc = '<copy of %s>' % loc
                kind = n.func.attr
                if kind == 'popleft':          # deque.popleft() is pop(0)
                    kind, arg = 'pop', '0'
                out.append(Effect(kind, loc, arg, n, ev,
                                  n.args[0] if n.args else None))
    return out


def _is_heap_name(t, fr):
    return False


def _walk_expr(root):
    stack = [root]
    while stack:
        n = stack.pop()
        yield n
        for c in ast.iter_child_nodes(n):
            if isinstance(c, (ast.Lambda, ast.FunctionDef, ast.AsyncFunctionDef, ast.ClassDef)):
                continue
            stack.append(c)


def _as_aug(canon, t, value, fr):
    """`L = L + d` / `L = L - d` (also through one single-assignment temporary) is the
    augmented assignment it spells out: ('aug+'|'aug-', d) or None"""
    v = value
    if isinstance(v, ast.Name) and fr is not None and v.id in fr.aliases:
        v = fr.aliases[v.id]
    if not isinstance(v, ast.BinOp) or not isinstance(v.op, (ast.Add, ast.Sub)):
        return None
    tl = canon.c(t, fr)
    if canon.c(v.left, fr) == tl:
        return ('aug+' if isinstance(v.op, ast.Add) else 'aug-', v.right)
    if isinstance(v.op, ast.Add) and canon.c(v.right, fr) == tl:
        return ('aug+', v.left)
    return None


def _store(canon, t, value, fr, node, ev, kind):
    out = []
    if isinstance(t, (ast.Tuple, ast.List)):
        for x in t.elts:
            out += _store(canon, x, None, fr, node, ev, kind)
    elif isinstance(t, ast.Attribute):
        aug = _as_aug(canon, t, value, fr)
        if aug is not None:
            out.append(Effect(aug[0], canon.c(t, fr), canon.c(aug[1], fr), node, ev, aug[1]))
        else:
            out.append(Effect('assign', canon.c(t, fr),
                              canon.c(value, fr) if value is not None else '?', node, ev, value))
    elif isinstance(t, ast.Subscript):
        aug = _as_aug(canon, t, value, fr)
        if aug is not None:
            out.append(Effect(aug[0], canon.c(t, fr), canon.c(aug[1], fr), node, ev, aug[1]))
            return out
        out.append(Effect('store', canon.c(t.value, fr),
                          canon.c(t.slice, fr), node, ev, value))
        out.append(Effect('assign', canon.c(t, fr),
                          canon.c(value, fr) if value is not None else '?', node, ev, value))
    return out


# --------------------------------------------------------------------------
# literals and boolean structure

def negate_cmp(op):
    return {'==': '!=', '!=': '==', '<': '>=', '>=': '<', '>': '<=', '<=': '>',
            'is': 'is not', 'is not': 'is', 'in': 'not in', 'not in': 'in'}[op]


class Lit:
    """A canonical literal: (atom, polarity).  atom is a string."""
    __slots__ = ('atom', 'pol')

    def __init__(self, atom, pol):
        self.atom = atom
        self.pol = pol

    def neg(self):
        return Lit(self.atom, not self.pol)

    def key(self):
        return (self.atom, self.pol)

    def __repr__(self):
        return ('' if self.pol else 'not ') + self.atom

    def __eq__(self, o):
        return isinstance(o, Lit) and self.key() == o.key()

    def __hash__(self):
        return hash(self.key())


def _is_len(e):
    return isinstance(e, ast.Call) and isinstance(e.func, ast.Name) and \
        e.func.id == 'len' and len(e.args) == 1


def _num(e):
    if isinstance(e, ast.Constant) and isinstance(e.value, (int, float)) and \
            not isinstance(e.value, bool):
        return e.value
    if isinstance(e, ast.UnaryOp) and isinstance(e.op, ast.USub):
        v = _num(e.operand)
        return -v if v is not None else None
    return None


class Logic:
    """Turns test expressions into canonical literals / DNF."""

    def __init__(self, canon):
        self.canon = canon

    def atom(self, e, fr, pol=True):
        """Literal for a non-boolean-operator expression."""
        c = self.canon
        # unwrap bool(...)
        if isinstance(e, ast.Call) and isinstance(e.func, ast.Name) and \
                e.func.id == 'bool' and len(e.args) == 1:
            return self.atom(e.args[0], fr, pol)
        if _is_len(e):                      # truthiness of len(L)
            q = self._empty_comp(e.args[0], fr, not pol)
            if q is not None:
                return q
            return Lit('empty(%s)' % c.c(e.args[0], fr), not pol)
        if isinstance(e, ast.Compare) and len(e.ops) == 1:
            op = _CMP[type(e.ops[0])]
            l, r = e.left, e.comparators[0]
            # a local holding len(...) stands for it
            if fr is not None:
                if isinstance(l, ast.Name) and l.id in fr.aliases and _is_len(fr.aliases[l.id]):
                    l = fr.aliases[l.id]
                if isinstance(r, ast.Name) and r.id in fr.aliases and _is_len(fr.aliases[r.id]):
                    r = fr.aliases[r.id]
            # emptiness idioms
            for a, b, o in ((l, r, op), (r, l, _flip(op))):
                if _is_len(a) and _num(b) is not None:
                    n = _num(b)
                    loc = c.c(a.args[0], fr)
                    # len(L) o n  -> empty / not empty where decidable
                    if (o, n) in (('==', 0), ('<', 1), ('<=', 0)):
                        return self._empty_comp(a.args[0], fr, pol) or Lit('empty(%s)' % loc, pol)
                    if (o, n) in (('!=', 0), ('>', 0), ('>=', 1)):
                        return self._empty_comp(a.args[0], fr, not pol) or Lit('empty(%s)' % loc, not pol)
            if isinstance(r, (ast.List, ast.Tuple, ast.Dict)) and not getattr(
                    r, 'elts', getattr(r, 'keys', None)) and op in ('==', '!='):
                return Lit('empty(%s)' % c.c(l, fr), pol if op == '==' else not pol)
            if op in ('not in', 'is not', '!='):
                op = negate_cmp(op)
                pol = not pol
            ls, rs = c.c(l, fr), c.c(r, fr)
            if op in ('==', 'is'):
                # enum identity and equality are one atom; order operands
                if op == 'is' or True:
                    a, b = sorted([ls, rs])
                    return Lit('%s == %s' % (a, b), pol)
            if op == 'in':
                return Lit('%s in %s' % (ls, rs), pol)
            # order comparisons: normalise through affine forms
            aff = affine_cmp(c, l, op, r, fr)
            if aff is not None:
                atom, p = aff
                return Lit(atom, pol if p else not pol)
            return Lit('%s %s %s' % (ls, op, rs), pol)
        if isinstance(e, ast.Constant):
            return Lit('const:%r' % bool(e.value), pol)
        q = self._empty_comp(e, fr, not pol)
        if q is not None:
            return q
        s = c.c(e, fr)
        # truthiness of a container location counts as non-emptiness
        return Lit('truthy(%s)' % s, pol)

    def _empty_comp(self, e, fr, pol):
        """emptiness of a filtered comprehension [x for x in I if P] (directly, or through the
        one local it is assigned to):  empty  <=>  forall x in I: not P"""
        if fr is None:
            return None
        comp = e
        if isinstance(e, ast.Name) and e.id not in fr.binding:
            from .paths import assigned_names
            defs = assigned_names(fr.func).get(e.id, [])
            if len(defs) == 1 and isinstance(defs[0], ast.Assign) and len(defs[0].targets) == 1 and \
                    isinstance(defs[0].targets[0], ast.Name):
                comp = defs[0].value
        if not (isinstance(comp, (ast.ListComp, ast.GeneratorExp)) and len(comp.generators) == 1
                and comp.generators[0].ifs):
            return None
        from .skel import quantified
        g = comp.generators[0]
        vs = [v for v in (self.canon.c(x, fr) for x in ast.walk(g.target) if isinstance(x, ast.Name)) if v not in SINGLETONS]
        it = self._iter_c(g.iter, fr)
        cond = g.ifs[0] if len(g.ifs) == 1 else ast.BoolOp(op=ast.And(), values=list(g.ifs))
        if pol:      # empty: every element fails the filter
            alts = self.dnf(cond, fr, False, 1)
            if len(alts) == 1 and len(alts[0]) == 1:
                return quantified('forall', vs, it, alts[0][0])
            return None
        alts = self.dnf(cond, fr, True, 1)
        if len(alts) == 1 and len(alts[0]) == 1:
            return quantified('exists', vs, it, alts[0][0])
        return None

    def dnf(self, e, fr, pol=True, depth=2):
        """List of conjunctions (lists of Lit) equivalent to (e is pol),
        with short-circuit order preserved.  Calls to topsim predicate
        functions are expanded `depth` levels."""
        if isinstance(e, ast.UnaryOp) and isinstance(e.op, ast.Not):
            return self.dnf(e.operand, fr, not pol, depth)
        if isinstance(e, ast.IfExp):
            # (c and a) or (not c and b)
            return self.dnf(ast.BoolOp(op=ast.Or(), values=[
                ast.BoolOp(op=ast.And(), values=[e.test, e.body]),
                ast.BoolOp(op=ast.And(), values=[ast.UnaryOp(op=ast.Not(), operand=e.test), e.orelse])]), fr, pol, depth)
        if isinstance(e, ast.Call) and fr is not None and (depth > 0 or (
                isinstance(e.func, ast.Name) and e.func.id in ('any', 'all', 'bool'))):
            r = self.call_dnf(e, fr, pol, depth)
            if r is not None:
                return r
        if isinstance(e, ast.BoolOp):
            is_and = isinstance(e.op, ast.And)
            if is_and == pol:
                # conjunction of all
                res = [[]]
                for v in e.values:
                    nxt = []
                    for part in self.dnf(v, fr, pol, depth):
                        for r in res:
                            nxt.append(r + part)
                    res = nxt
                return res
            else:
                # disjunction: v0 | (~v0 & v1) | ...
                res = []
                prefix = [[]]
                for v in e.values:
                    for part in self.dnf(v, fr, pol, depth):
                        for p in prefix:
                            res.append(p + part)
                    nxt = []
                    for part in self.dnf(v, fr, not pol, depth):
                        for p in prefix:
                            nxt.append(p + part)
                    prefix = nxt
                return res
        if isinstance(e, ast.Name) and fr is not None and e.id in fr.aliases and \
                isinstance(fr.aliases[e.id], (ast.BoolOp, ast.Compare, ast.UnaryOp)):
            return self.dnf(fr.aliases[e.id], fr, pol, depth)
        if isinstance(e, ast.Name) and fr is not None and e.id not in fr.binding:
            # a flag assigned exactly once from a boolean expression / predicate call stands for it
            from .paths import assigned_names
            defs = assigned_names(fr.func).get(e.id, [])
            if len(defs) == 1 and isinstance(defs[0], ast.Assign) and len(defs[0].targets) == 1 and \
                    isinstance(defs[0].targets[0], ast.Name) and e.id not in fr.func.params and \
                    isinstance(defs[0].value, (ast.BoolOp, ast.Compare, ast.UnaryOp, ast.Call)) and \
                    not any(isinstance(x, ast.Name) and x.id == e.id for x in ast.walk(defs[0].value)):
                v0 = defs[0].value
                if not isinstance(v0, ast.Call):
                    return self.dnf(v0, fr, pol, depth)
                # a call: only predicates (not getters/constructors) stand for their truth value
                if isinstance(v0.func, ast.Name) and v0.func.id == 'bool':
                    return self.dnf(v0, fr, pol, depth)
                if depth > 0:
                    r = self.call_dnf(v0, fr, pol, depth)
                    if r is not None:
                        return r
                elif self._is_predicate_call(v0, fr):
                    return [[self.atom(v0, fr, pol)]]
        if isinstance(e, ast.Name) and fr is not None and e.id in fr.binding:
            ex, f2 = fr.binding[e.id]
            if f2 is not None and isinstance(ex, (ast.BoolOp, ast.Compare, ast.UnaryOp, ast.Call)):
                return self.dnf(ex, f2, pol, depth)
        if isinstance(e, ast.IfExp):
            res = []
            for t in self.dnf(e.test, fr, True, depth):
                for b in self.dnf(e.body, fr, pol, depth):
                    res.append(t + b)
            for t in self.dnf(e.test, fr, False, depth):
                for b in self.dnf(e.orelse, fr, pol, depth):
                    res.append(t + b)
            return res
        if isinstance(e, ast.Compare) and len(e.ops) > 1:
            # a < b < c  ->  a<b and b<c
            parts = []
            left = e.left
            for op, r in zip(e.ops, e.comparators):
                parts.append(ast.Compare(left=left, ops=[op], comparators=[r]))
                left = r
            return self.dnf(ast.BoolOp(op=ast.And(), values=parts), fr, pol, depth)
        shape = self._emptiness_shape(e, fr, pol)
        if shape is not None:
            r = self._empty_comp_dnf(shape[0], fr, shape[1], depth)
            if r is not None:
                return r
        cd = self._count_dnf(e, fr, pol)
        if cd is not None:
            return cd
        cd = self._lensum_dnf(e, fr, pol)
        if cd is not None:
            return cd
        if shape is not None:
            parts = self._concat_parts(shape[0], fr)
            if len(parts) > 1 and (_is_len(e) or isinstance(e, ast.Compare) or all(
                    isinstance(x, (ast.Attribute, ast.Subscript, ast.List, ast.ListComp)) for x in parts)):
                # A + B is empty iff A and B are (containers: never for a numeric sum)
                tests = [ast.Compare(left=ast.Call(func=ast.Name(id='len', ctx=ast.Load()), args=[x], keywords=[]),
                                     ops=[ast.Eq()], comparators=[ast.Constant(value=0)]) for x in parts]
                return self.dnf(ast.BoolOp(op=ast.And(), values=tests), fr, shape[1], depth)
        if isinstance(e, ast.Compare) and len(e.ops) == 1 and isinstance(e.ops[0], (ast.In, ast.NotIn)):
            parts = self._concat_parts(e.comparators[0], fr)
            if len(parts) > 1:
                # x in A + B iff x in A or x in B
                tests = [ast.Compare(left=e.left, ops=[ast.In()], comparators=[x]) for x in parts]
                return self.dnf(ast.BoolOp(op=ast.Or(), values=tests), fr,
                                pol if isinstance(e.ops[0], ast.In) else not pol, depth)
        return [[self.atom(e, fr, pol)]]

    def _concat_parts(self, e, fr, _d=0):
        """operands of a list concatenation A + B (+ C), looking through single-assignment locals"""
        if _d > 6:
            return [e]
        if isinstance(e, ast.Name) and fr is not None and e.id not in fr.binding and e.id in fr.aliases:
            return self._concat_parts(fr.aliases[e.id], fr, _d + 1)
        if isinstance(e, ast.BinOp) and isinstance(e.op, ast.Add):
            return self._concat_parts(e.left, fr, _d + 1) + self._concat_parts(e.right, fr, _d + 1)
        if isinstance(e, ast.Call) and isinstance(e.func, ast.Name) and e.func.id in ('list', 'tuple') \
                and len(e.args) == 1 and not e.keywords and isinstance(e.args[0], (ast.BinOp, ast.Name)):
            inner = self._concat_parts(e.args[0], fr, _d + 1)
            if len(inner) > 1:
                return inner
        return [e]

    def _lensum_dnf(self, e, fr, pol):
        """len(A) + len(B) (+ ...) compared with 0: all empty / some not empty"""
        if not (isinstance(e, ast.Compare) and len(e.ops) == 1):
            return None
        op = _CMP[type(e.ops[0])]
        if op not in ('==', '!=', '<', '<=', '>', '>='):
            return None
        try:
            a = affine(self.canon, e.left, fr) - affine(self.canon, e.comparators[0], fr)
        except RecursionError:
            return None
        if len(a.terms) < 2 or not all(k.startswith('len(') and k.endswith(')') for k in a.terms):
            return None
        coefs = set(a.terms.values())
        if coefs == {-1}:
            a = a.scale(-1)
            op = {'<': '>', '<=': '>=', '>': '<', '>=': '<='}.get(op, op)
        elif coefs != {1}:
            return None
        if not pol:
            op = {'==': '!=', '!=': '==', '<': '>=', '<=': '>', '>': '<=', '>=': '<'}[op]
        c0 = -a.const            # sum op c0
        locs = sorted(k[4:-1] for k in a.terms)
        if (op, c0) in (('==', 0), ('<=', 0), ('<', 1)):
            return [[Lit('empty(%s)' % x, True) for x in locs]]
        if (op, c0) in (('!=', 0), ('>', 0), ('>=', 1)):
            return [[Lit('empty(%s)' % x, False)] for x in locs]
        return None

    def _count_dnf(self, e, fr, pol):
        """comparisons of a count term with the size of its iterable or with 0/1 are quantified
        statements:  count{I: P} == len(I)  <=>  forall x in I: P ;  count < len(I)  <=>  exists not P ;
        count == 0  <=>  forall not P ;  count >= 1  <=>  exists P"""
        if not (isinstance(e, ast.Compare) and len(e.ops) == 1):
            return None
        op = _CMP[type(e.ops[0])]
        if op not in ('==', '!=', '<', '<=', '>', '>='):
            return None
        try:
            a = affine(self.canon, e.left, fr) - affine(self.canon, e.comparators[0], fr)
        except RecursionError:
            return None
        keys = [k for k in a.terms if k in COUNT_INFO]
        if len(keys) != 1 or abs(a.terms[keys[0]]) != 1:
            return None
        k = keys[0]
        it, lits = COUNT_INFO[k]
        if a.terms[k] == -1:            # make the count positive:  (c + rest) op' 0
            a = a.scale(-1)
            op = {'<': '>', '<=': '>=', '>': '<', '>=': '<='}.get(op, op)
        rest = a - Affine({k: 1})        # c + rest  op  0
        n = 'len(%s)' % it
        if rest == Affine({n: -1}):
            base = 'n'                   # c - n op 0
        elif rest.is_const():
            base = rest.const            # c + const op 0
        else:
            return None
        if not pol:
            op = {'==': '!=', '!=': '==', '<': '>=', '<=': '>', '>': '<=', '>=': '<'}[op]
        # decide which statement about P the comparison makes
        if base == 'n':
            verdict = {'==': 'all', '>=': 'all', '!=': 'some-not', '<': 'some-not', '<=': 'true', '>': 'false'}[op]
        else:
            c0 = -base                   # c op c0
            verdict = None
            if (op, c0) in (('==', 0), ('<=', 0), ('<', 1)):
                verdict = 'none'
            elif (op, c0) in (('!=', 0), ('>', 0), ('>=', 1)):
                verdict = 'some'
        if verdict is None:
            return None
        from .skel import quantified
        if verdict == 'true':
            return [[]]
        if verdict == 'false':
            return []
        if verdict == 'all':
            return [[quantified('forall', ['$1'], it, l) for l in lits]]
        if verdict == 'none':            # forall x: not (P1 & P2)  -- only a single literal splits
            if len(lits) == 1:
                return [[quantified('forall', ['$1'], it, lits[0].neg())]]
            return None
        if verdict == 'some':
            if len(lits) == 1:
                return [[quantified('exists', ['$1'], it, lits[0])]]
            return [[Lit('exists $1 in %s: %s' % (it, ' & '.join(sorted(map(repr, lits)))), True)]]
        if verdict == 'some-not':
            return [[quantified('exists', ['$1'], it, l.neg())] for l in lits]
        return None

    def _emptiness_shape(self, e, fr, pol):
        """(container expr, asserted-empty?) when `e is pol` states (non-)emptiness of a container"""
        if isinstance(e, ast.Call) and isinstance(e.func, ast.Name) and e.func.id == 'bool' and len(e.args) == 1:
            return self._emptiness_shape(e.args[0], fr, pol)
        if _is_len(e):
            return e.args[0], not pol
        if isinstance(e, ast.Compare) and len(e.ops) == 1:
            op = _CMP[type(e.ops[0])]
            l, r = e.left, e.comparators[0]
            if fr is not None:
                if isinstance(l, ast.Name) and l.id in fr.aliases and _is_len(fr.aliases[l.id]):
                    l = fr.aliases[l.id]
                if isinstance(r, ast.Name) and r.id in fr.aliases and _is_len(fr.aliases[r.id]):
                    r = fr.aliases[r.id]
            for a, b, o in ((l, r, op), (r, l, _flip(op))):
                if _is_len(a) and _num(b) is not None:
                    n = _num(b)
                    if (o, n) in (('==', 0), ('<', 1), ('<=', 0)):
                        return a.args[0], pol
                    if (o, n) in (('!=', 0), ('>', 0), ('>=', 1)):
                        return a.args[0], not pol
            return None
        if isinstance(e, (ast.Name, ast.ListComp, ast.GeneratorExp)):
            return e, not pol
        return None

    def _empty_comp_dnf(self, e, fr, pol, depth):
        """like _empty_comp, over a domain of known singleton objects: the instances spelled out"""
        if fr is None:
            return None
        comp = e
        if isinstance(e, ast.Name) and e.id not in fr.binding:
            from .paths import assigned_names
            defs = assigned_names(fr.func).get(e.id, [])
            if len(defs) == 1 and isinstance(defs[0], ast.Assign) and len(defs[0].targets) == 1 and \
                    isinstance(defs[0].targets[0], ast.Name):
                comp = defs[0].value
        if not (isinstance(comp, (ast.ListComp, ast.GeneratorExp)) and len(comp.generators) == 1
                and comp.generators[0].ifs):
            return None
        g = comp.generators[0]
        vs = [v for v in (self.canon.c(x, fr) for x in ast.walk(g.target) if isinstance(x, ast.Name)) if v not in SINGLETONS]
        cond = g.ifs[0] if len(g.ifs) == 1 else ast.BoolOp(op=ast.And(), values=list(g.ifs))
        # empty: every element fails the filter; non-empty: some element passes it
        return self._instantiate(g, vs, cond, fr, pol, not pol, depth)

    def _iter_c(self, it, fr):
        """canonical iterable of a quantifier: D.items() and D.keys() range over D"""
        if isinstance(it, ast.Call) and isinstance(it.func, ast.Attribute) and it.func.attr in ('items', 'keys') \
                and not it.args:
            return self.canon.c(it.func.value, fr)
        return self.canon.c(it, fr)

    def _instantiate(self, g, vs, body, fr, universal, body_pol, depth):
        """a quantifier whose domain is a known set of singleton objects (the hot and cold tier,
        ...) is the conjunction / disjunction of its instances"""
        from .skel import elem_singletons, _reorder_eq, _mentions
        import itertools
        names = [x for x in ast.walk(g.target) if isinstance(x, ast.Name)]
        if names and len(vs) < len(names):
            # some loop variables are themselves singletons (for k, tier in self.hot.items()): the
            # container is one of the simulation's fixed, non-empty ones; literals that mention no
            # remaining variable hold as they stand
            alts = self.dnf(body, fr, body_pol, depth)
            if all(not any(_mentions(l.atom, v) for v in vs) for a in alts for l in a):
                return alts
        if len(vs) != 1:
            return None
        sing = sorted(elem_singletons(self.canon, g.iter, fr))
        if not sing:
            return None
        alts = self.dnf(body, fr, body_pol, depth)

        def inst(l, t):
            return _reorder_eq(Lit(re.sub(r'(?<![\w#.$])%s(?![\w])' % re.escape(vs[0]), t, l.atom), l.pol))
        per = [[[inst(l, t) for l in a] for a in alts] for t in sing]
        if universal:
            if len(alts) ** len(sing) > 32:
                return None
            return [sum(combo, []) for combo in itertools.product(*per)]
        return [a for t_alts in per for a in t_alts]

    def _is_predicate_call(self, call, fr):
        cals, exact = self.canon.repo.resolve_call(call, fr.func)
        return len(cals) == 1 and exact and not cals[0].is_generator and \
            self.canon.getter_of(cals[0]) is None and is_predicate(cals[0])

    def call_dnf(self, call, fr, pol, depth):
        """Expand a call to a side-effect-free topsim predicate."""
        from .skel import outcomes
        from .paths import bind_args
        fn = call.func
        if isinstance(fn, ast.Name) and fn.id in ('bool',) and len(call.args) == 1:
            return self.dnf(call.args[0], fr, pol, depth)
        if isinstance(fn, ast.Name) and fn.id in ('all', 'any') and len(call.args) == 1 and isinstance(
                call.args[0], (ast.GeneratorExp, ast.ListComp)) and len(call.args[0].generators) == 1:
            from .skel import quantified
            comp = call.args[0]
            g = comp.generators[0]
            vs = [v for v in (self.canon.c(x, fr) for x in ast.walk(g.target) if isinstance(x, ast.Name)) if v not in SINGLETONS]
            it = self._iter_c(g.iter, fr)
            body = comp.elt
            for c_ in g.ifs:       # all(P for x if C) == all(not C or P); any(P for x if C) == any(C and P)
                if fn.id == 'all':
                    body = ast.BoolOp(op=ast.Or(), values=[ast.UnaryOp(op=ast.Not(), operand=c_), body])
                else:
                    body = ast.BoolOp(op=ast.And(), values=[c_, body])
            # all(P) true / any(P) false are universal; the other two existential
            universal = (fn.id == 'all') == pol
            inner_pol = True if fn.id == 'all' else False
            inst = self._instantiate(g, vs, body, fr, universal, inner_pol if universal else not inner_pol, depth)
            if inst is not None:
                return inst
            if universal:
                alts = self.dnf(body, fr, inner_pol, depth)
                if len(alts) == 1:
                    return [[quantified('forall', vs, it, l) for l in alts[0]]]
                return [[Lit('forall %s in %s: %s' % (','.join(vs), it, self.canon.c(body, fr)), inner_pol)]]
            alts = self.dnf(body, fr, not inner_pol, depth)
            if len(alts) == 1 and len(alts[0]) == 1:
                return [[quantified('exists', vs, it, alts[0][0])]]
            if alts and len(alts) <= 6:
                # exists x: (A and B(x)) or C(x)  ==  (A and exists x: B(x)) or exists x: C(x)
                from .skel import _mentions
                out = []
                for conj in alts:
                    dep = [l for l in conj if any(_mentions(l.atom, v) for v in vs)]
                    ind = [l for l in conj if l not in dep]
                    if len(dep) == 1:
                        out.append(ind + [quantified('exists', vs, it, dep[0])])
                    elif not dep:
                        out.append(ind + [Lit('empty(%s)' % it, False)])
                    else:
                        qs = sorted(repr(quantified('exists', vs, it, l))[len('exists %s in %s: ' % (
                            ','.join('$%d' % (i + 1) for i in range(len(vs))), it)):] for l in dep)
                        out.append(ind + [Lit('exists %s in %s: %s' % (
                            ','.join('$%d' % (i + 1) for i in range(len(vs))), it, ' & '.join(qs)), True)])
                return out
            return [[Lit('exists %s in %s: %s' % (','.join(vs), it, self.canon.c(body, fr)), not inner_pol)]]
        if isinstance(fn, ast.Name) and fn.id in ('all', 'any'):
            return None
        cals, exact = self.canon.repo.resolve_call(call, fr.func)
        if len(cals) != 1 or not exact:
            return None
        cal = cals[0]
        if cal.is_generator or cal.name == '__init__':
            return None
        if self.canon.getter_of(cal) is not None:
            return None
        if not is_predicate(cal):
            return None
        sub = Frame(cal, fr, bind_args(cal, call, fr), call)
        outs = outcomes(self, cal, sub, boolean=True, depth=depth - 1)
        want = 'T' if pol else 'F'
        res = [o.lits for o in outs if o.result == want]
        return res

    def must(self, e, fr, pol=True):
        """Literals that certainly hold when (e is pol)."""
        alts = self.dnf(e, fr, pol)
        if not alts:
            return set()
        common = set(alts[0])
        for a in alts[1:]:
            common &= set(a)
        return common


_PRED = {}


def is_predicate(func):
    """No heap effects, no calls with effects we cannot see: every statement is
    a docstring, an assignment to a local, an if/for/return, and every return
    carries a value."""
    k = id(func.node)
    if k in _PRED:
        return _PRED[k]
    ok = True
    nret = 0
    for n in walk_no_nested(func.node):
        if isinstance(n, ast.Return):
            nret += 1
            if n.value is None:
                ok = False
        elif isinstance(n, (ast.AugAssign, ast.Delete, ast.Raise, ast.While,
                            ast.Yield, ast.YieldFrom, ast.Global, ast.Nonlocal)):
            if isinstance(n, ast.AugAssign) and isinstance(n.target, ast.Name):
                continue
            ok = False
        elif isinstance(n, ast.Assign):
            for t in n.targets:
                for x in ast.walk(t):
                    if isinstance(x, (ast.Attribute, ast.Subscript)):
                        ok = False
        elif isinstance(n, ast.Call) and isinstance(n.func, ast.Attribute) and \
                n.func.attr in MUTATORS:
            ok = False
    _PRED[k] = ok and nret > 0
    return _PRED[k]


def _flip(op):
    return {'<': '>', '>': '<', '<=': '>=', '>=': '<=', '==': '==', '!=': '!=',
            'is': 'is', 'is not': 'is not', 'in': 'in?', 'not in': 'not in?'}.get(op, op)


# --------------------------------------------------------------------------
# affine forms

class Affine:
    """sum(coeff * term) + const, terms are canonical strings."""

    def __init__(self, terms=None, const=0):
        self.terms = {k: v for k, v in (terms or {}).items() if v != 0}
        self.const = Fraction(const)

    def __add__(self, o):
        t = dict(self.terms)
        for k, v in o.terms.items():
            t[k] = t.get(k, 0) + v
        return Affine(t, self.const + o.const)

    def scale(self, k):
        return Affine({a: b * k for a, b in self.terms.items()}, self.const * k)

    def __sub__(self, o):
        return self + o.scale(-1)

    def is_const(self):
        return not self.terms

    def key(self):
        return (tuple(sorted(self.terms.items())), self.const)

    def __eq__(self, o):
        return isinstance(o, Affine) and self.key() == o.key()

    def __hash__(self):
        return hash(self.key())

    def __repr__(self):
        parts = []
        for k, v in sorted(self.terms.items()):
            if v == 1:
                parts.append('+ ' + k)
            elif v == -1:
                parts.append('- ' + k)
            else:
                parts.append('%s %s*%s' % ('+' if v > 0 else '-', abs(v), k))
        if self.const or not parts:
            parts.append('%s %s' % ('+' if self.const >= 0 else '-', abs(self.const)))
        s = ' '.join(parts)
        return s[2:] if s.startswith('+ ') else s


COUNT_INFO = {}     # key -> (iterable string, [literals over $1])


def _resolve_local(e, fr, want=(ast.Call,)):
    """the expression a single-assignment local names (for looking through `counts = Counter(...)`)"""
    if isinstance(e, ast.Name) and fr is not None and e.id not in fr.binding:
        from .paths import assigned_names
        defs = assigned_names(fr.func).get(e.id, [])
        if len(defs) == 1 and isinstance(defs[0], ast.Assign) and len(defs[0].targets) == 1 and isinstance(
                defs[0].targets[0], ast.Name) and isinstance(defs[0].value, want):
            return defs[0].value
    return e


def count_term(canon, comp, cond, fr):
    """Affine term  count{I: P}  = number of elements of the comprehension's iterable that satisfy
    `cond` (and the comprehension's own filters).  None when not expressible."""
    if not (isinstance(comp, (ast.ListComp, ast.GeneratorExp, ast.SetComp)) and len(comp.generators) == 1):
        return None
    g = comp.generators[0]
    if not isinstance(g.target, ast.Name):
        return None
    conds = list(g.ifs) + ([cond] if cond is not None else [])
    lg = Logic(canon)
    lits = []
    for c in conds:
        alts = lg.dnf(c, fr, True, 0)        # predicate calls stay atoms
        if len(alts) != 1:
            return None
        lits += alts[0]
    var = canon.c(g.target, fr)
    ren = []
    for l in lits:
        atom = re.sub(r'(?<![\w#.$])%s(?![\w])' % re.escape(var), '$1', l.atom)
        ren.append(Lit(atom, l.pol))
    it = canon.c(g.iter, fr)
    key = 'count{%s: %s}' % (it, ' & '.join(sorted(map(repr, ren))) or 'all')
    COUNT_INFO[key] = (it, ren)
    return Affine({key: 1})


def _count_of(canon, e, fr):
    """count term for the counting idioms: Counter(E for x in I)[K], sum([1 if C else 0 ...]),
    sum(1 for x in I if C), sum(C for x in I), len([x for x in I if C])"""
    if isinstance(e, ast.Subscript) and not isinstance(e.slice, ast.Slice):
        base = _resolve_local(e.value, fr)
        if isinstance(base, ast.Call) and isinstance(base.func, (ast.Name, ast.Attribute)) and (
                getattr(base.func, 'id', None) == 'Counter' or getattr(base.func, 'attr', None) == 'Counter') \
                and len(base.args) == 1 and isinstance(base.args[0], (ast.GeneratorExp, ast.ListComp)):
            comp = base.args[0]
            cond = ast.Compare(left=comp.elt, ops=[ast.Eq()], comparators=[e.slice])
            return count_term(canon, comp, cond, fr)
    if isinstance(e, ast.Call) and isinstance(e.func, ast.Name) and len(e.args) == 1 and not e.keywords:
        comp = e.args[0]
        if e.func.id == 'len':
            comp = _resolve_local(comp, fr, want=(ast.ListComp,))
        if not isinstance(comp, (ast.GeneratorExp, ast.ListComp)) or len(comp.generators) != 1:
            return None
        g = comp.generators[0]
        if e.func.id == 'sum':
            if isinstance(comp.elt, ast.IfExp) and isinstance(comp.elt.body, ast.Constant) and comp.elt.body.value == 1 \
                    and isinstance(comp.elt.orelse, ast.Constant) and comp.elt.orelse.value == 0:
                return count_term(canon, comp, comp.elt.test, fr)
            if isinstance(comp.elt, ast.Constant) and comp.elt.value == 1 and g.ifs:
                return count_term(canon, comp, None, fr)
            if isinstance(comp.elt, (ast.Compare, ast.BoolOp)) or (
                    isinstance(comp.elt, ast.UnaryOp) and isinstance(comp.elt.op, ast.Not)):
                return count_term(canon, comp, comp.elt, fr)
        if e.func.id == 'len' and g.ifs and isinstance(comp.elt, ast.Name) and isinstance(g.target, ast.Name) \
                and comp.elt.id == g.target.id:
            return count_term(canon, comp, None, fr)
    return None


def affine(canon, e, fr, env=None, _d=0):
    """Affine form of expression e (copy-propagating frame aliases and `env`,
    a dict name -> Affine for path-sensitive locals)."""
    if _d > 30:
        return Affine({canon.c(e, fr): 1})
    d = _d + 1
    v = _num(e)
    if v is not None:
        return Affine({}, Fraction(v).limit_denominator(10**9))
    if isinstance(e, (ast.Subscript, ast.Call)):
        ct = _count_of(canon, e, fr)
        if ct is not None:
            return ct
    if isinstance(e, ast.Name):
        if env is not None and e.id in env:
            return env[e.id]
        if fr is not None:
            if e.id in fr.binding:
                ex, f2 = fr.binding[e.id]
                return affine(canon, ex, f2 if f2 is not None else Frame(fr.func), None, d)
            if e.id in fr.aliases:
                return affine(canon, fr.aliases[e.id], fr, env, d)
        return Affine({canon.c(e, fr): 1})
    if isinstance(e, ast.BinOp):
        if isinstance(e.op, ast.Add):
            return affine(canon, e.left, fr, env, d) + affine(canon, e.right, fr, env, d)
        if isinstance(e.op, ast.Sub):
            return affine(canon, e.left, fr, env, d) - affine(canon, e.right, fr, env, d)
        if isinstance(e.op, ast.Mult):
            a, b = affine(canon, e.left, fr, env, d), affine(canon, e.right, fr, env, d)
            if a.is_const():
                return b.scale(a.const)
            if b.is_const():
                return a.scale(b.const)
            fs = sorted([repr(a), repr(b)])
            return Affine({'(%s)*(%s)' % tuple(fs): 1})
        if isinstance(e.op, ast.Div):
            a, b = affine(canon, e.left, fr, env, d), affine(canon, e.right, fr, env, d)
            if b.is_const() and b.const != 0:
                return a.scale(1 / b.const)
            return Affine({'(%r)/(%r)' % (a, b): 1})
        if isinstance(e.op, ast.FloorDiv):
            a, b = affine(canon, e.left, fr, env, d), affine(canon, e.right, fr, env, d)
            return Affine({'floor((%r)/(%r))' % (a, b): 1})
    if isinstance(e, ast.UnaryOp) and isinstance(e.op, ast.USub):
        return affine(canon, e.operand, fr, env, d).scale(-1)
    if isinstance(e, ast.Call) and isinstance(e.func, ast.Name):
        if e.func.id == 'int' and len(e.args) == 1:
            inner = affine(canon, e.args[0], fr, env, d)
            if inner.is_const():
                return Affine({}, int(inner.const))
            # int(a/b) == floor(a/b) for the non-negative operands used here
            if len(inner.terms) == 1 and inner.const == 0:
                (k, v), = inner.terms.items()
                if v == 1 and k.startswith('(') and ')/(' in k:
                    return Affine({'floor(%s)' % k: 1})
            return Affine({'int(%r)' % inner: 1})
        if e.func.id in ('round', 'float') and len(e.args) == 1:
            inner = affine(canon, e.args[0], fr, env, d)
            if e.func.id == 'float':
                return inner
            return Affine({'round(%r)' % inner: 1})
        if e.func.id in ('max', 'min') and len(e.args) == 1 and isinstance(e.args[0], (ast.Tuple, ast.List)) \
                and len(e.args[0].elts) >= 2 and not any(isinstance(x, ast.Starred) for x in e.args[0].elts) \
                and not e.keywords:
            e = ast.Call(func=e.func, args=list(e.args[0].elts), keywords=[])
        if e.func.id in ('max', 'min') and len(e.args) == 1 and all(k.arg == 'default' for k in e.keywords):
            parts = fold_parts(canon, e.args[0], fr, env, d)
            if parts is not None:
                dflt = affine(canon, e.keywords[0].value, fr, env, d) if e.keywords else None
                return fold_term(e.func.id, parts[0], parts[1], dflt)
        if e.func.id in ('max', 'min') and any(isinstance(a, ast.Starred) for a in e.args) and not e.keywords:
            parts = fold_parts(canon, ast.List(elts=list(e.args), ctx=ast.Load()), fr, env, d)
            if parts is not None:
                return fold_term(e.func.id, parts[0], parts[1], None)
        if e.func.id in ('max', 'min') and len(e.args) >= 2:
            affs = [affine(canon, a, fr, env, d) for a in e.args]
            if all(a.is_const() for a in affs):
                return Affine({}, (max if e.func.id == 'max' else min)(a.const for a in affs))
            return minmax_term(e.func.id, affs)
        if e.func.id == 'len' and len(e.args) == 1:
            return Affine({'len(%s)' % canon.c(e.args[0], fr): 1})
        if e.func.id == 'sum' and 1 <= len(e.args) <= 2 and not e.keywords:
            parts = fold_parts(canon, e.args[0], fr, env, d)
            if parts is not None and not parts[1]:
                tot = affine(canon, e.args[1], fr, env, d) if len(e.args) == 2 else Affine()
                for x in parts[0]:
                    tot = tot + x
                return tot
    return Affine({canon.c(e, fr): 1})


TERM_INFO = {}


FOLD_INFO = {}     # key -> (kind, lits, comps, default)


def _single_term(a):
    if len(a.terms) == 1 and a.const == 0:
        (k, v), = a.terms.items()
        if v == 1:
            return k
    return None


def push_in(a):
    """max(...) + r  ->  max(... + r)  for the one min/max/fold term (coefficient 1) of `a`;
    the rest r is moved inside every component."""
    hits = [k for k, v in a.terms.items() if v == 1 and (k in TERM_INFO or k in FOLD_INFO)]
    if len(hits) != 1:
        return a
    k = hits[0]
    r = a - Affine({k: 1})
    if r.is_const() and r.const == 0:
        return a
    if any(t in TERM_INFO or t in FOLD_INFO for t in r.terms):
        return a
    if k in TERM_INFO:
        kind, affs = TERM_INFO[k]
        return minmax_term(kind, [x + r for x in affs])
    kind, lits, comps, dflt = FOLD_INFO[k]
    return fold_term(kind, [x + r for x in lits], [(c[0], c[1] + r) + tuple(c[2:]) for c in comps],
                     None if dflt is None else dflt + r)


def fold_term(kind, lits, comps, dflt):
    """max / min over literal elements `lits` and comprehension parts `comps` = [(iterable, body)];
    `dflt` is the default= of an iterable that may be empty (None: none given)."""
    lits = list({repr(x): x for x in lits}.values())
    if lits:
        dflt = None          # never empty
    # max({b over P if b > D}, default=D) == max(D, {b over P}): an element the filter drops is <= D
    # and so cannot win against D; if nothing passes the filter the answer is D either way
    if not lits and dflt is not None and dflt.is_const() and comps and all(len(c) > 2 and len(c[2]) == 1 for c in comps):
        same = True
        for c in comps:
            a, _strict = c[2][0]
            d_ = a - c[1] if kind == 'max' else a + c[1]
            cval = (-d_.const if kind == 'max' else d_.const) if d_.is_const() else None
            if cval is None or cval != dflt.const:
                same = False
        if same:
            lits = [dflt]
            comps = [(c[0], c[1], ()) for c in comps]
            dflt = None
    # a filter that only drops elements which cannot win is no filter:
    #   max{L; over P if body > c: body} == max{L; over P: body}   when c <= L  (min: mirrored)
    norm = []
    for c in comps:
        P, body = c[0], c[1]
        filt = list(c[2]) if len(c) > 2 else []
        keep = []
        for a, strict in filt:
            d = a - body if kind == 'max' else a + body      # a == body - c  (max)   /   a == c - body (min)
            dropped = False
            if d.is_const():
                cval = -d.const if kind == 'max' else d.const
                for L in lits:
                    if L.is_const() and ((kind == 'max' and cval <= L.const) or (kind == 'min' and cval >= L.const)):
                        dropped = True
            if not dropped:
                keep.append((a, strict))
        norm.append((P, body, tuple(keep)))
    comps = norm
    if not comps:
        if not lits:
            return dflt if dflt is not None else Affine({'%s()' % kind: 1})
        return minmax_term(kind, lits)
    key = '%s{%s}' % (kind, '; '.join(
        sorted(repr(x) for x in lits) + sorted('over %s: %r%s' % (c[0], c[1], ''.join(
            ' if %r %s 0' % (a, '>' if st else '>=') for a, st in c[2])) for c in comps) +
        (['default %r' % dflt] if dflt is not None else [])))
    FOLD_INFO[key] = (kind, lits, comps, dflt)
    return Affine({key: 1})


def minmax_term(kind, affs):
    """max(a, b, ...) -- nested terms of the same kind are flattened, a fold among the
    operands absorbs the others (max(max_over(P; d), d) == max_over(P, floor d))"""
    flat = []
    fold = None
    for a in affs:
        a = push_in(a)
        k = _single_term(a)
        if k is not None and k in TERM_INFO and TERM_INFO[k][0] == kind:
            flat += TERM_INFO[k][1]
        elif k is not None and k in FOLD_INFO and FOLD_INFO[k][0] == kind and fold is None:
            fold = FOLD_INFO[k]
        else:
            flat.append(a)
    if fold is not None:
        _, lits, comps, dflt = fold
        if dflt is None or any(repr(dflt) == repr(x) for x in flat):
            return fold_term(kind, lits + flat, comps, None)
        flat.append(fold_term(kind, lits, comps, dflt))
    parts = sorted(set(repr(a) for a in flat))
    if len(parts) == 1:
        return flat[0]
    key = '%s(%s)' % (kind, ', '.join(parts))
    TERM_INFO[key] = (kind, flat)
    return Affine({key: 1})


def fold_parts(canon, it, fr, env, d=0):
    """(literal elements, [(iterable string, body Affine)]) of an iterable display:
    [a, b], [F(x) for x in P], concatenations, list(...)/tuple(...), single-assignment locals."""
    if d > 30:
        return None
    if isinstance(it, ast.Name) and fr is not None and it.id not in fr.binding:
        from .paths import assigned_names
        defs = assigned_names(fr.func).get(it.id, [])
        if len(defs) == 1 and isinstance(defs[0], ast.Assign) and len(defs[0].targets) == 1 and isinstance(
                defs[0].targets[0], ast.Name):
            muts = [n for n in walk_no_nested(fr.func.node) if isinstance(n, ast.Attribute) and isinstance(
                n.value, ast.Name) and n.value.id == it.id and n.attr in MUTATORS]
            if not muts:
                return fold_parts(canon, defs[0].value, fr, env, d + 1)
        return None
    if isinstance(it, (ast.List, ast.Tuple)):
        lits, comps = [], []
        for x in it.elts:
            if isinstance(x, ast.Starred):
                sub = fold_parts(canon, x.value, fr, env, d + 1)
                if sub is None:
                    return None
                lits += sub[0]
                comps += sub[1]
            else:
                lits.append(affine(canon, x, fr, env, d + 1))
        return lits, comps
    if isinstance(it, (ast.ListComp, ast.GeneratorExp)) and len(it.generators) == 1:
        g = it.generators[0]
        P = canon.p(g.iter, fr) if hasattr(canon, 'p') else canon.c(g.iter, fr)
        pc = canon if isinstance(canon, ProvCanon) else _prov_twin(canon)
        pc._comp_bind(it.generators, fr, d, frozenset())
        filt = []
        try:
            body = affine(pc, it.elt, fr, env, d + 1)
            for c in g.ifs:
                ok = False
                if isinstance(c, ast.Compare) and len(c.ops) == 1 and isinstance(c.ops[0], (ast.Gt, ast.GtE, ast.Lt, ast.LtE)):
                    l, r = affine(pc, c.left, fr, env, d + 1), affine(pc, c.comparators[0], fr, env, d + 1)
                    if isinstance(c.ops[0], (ast.Lt, ast.LtE)):
                        l, r = r, l
                    filt.append((l - r, isinstance(c.ops[0], (ast.Gt, ast.Lt))))
                    ok = True
                if not ok:
                    P += ' if ' + canon.p(c, fr)
        finally:
            pc._comp_env.pop()
        # the filtered list may be a second comprehension over the first: [w for w in waits if w > 0]
        if isinstance(it.elt, ast.Name) and isinstance(g.target, ast.Name) and it.elt.id == g.target.id:
            inner = fold_parts(canon, g.iter, fr, env, d + 1)
            if inner is not None and not inner[0] and len(inner[1]) == 1:
                P0, b0 = inner[1][0][0], inner[1][0][1]
                f0 = list(inner[1][0][2]) if len(inner[1][0]) > 2 else []
                # the filter speaks about the element, which is b0
                f1 = [((a - body) + b0, st) for a, st in filt]
                return [], [(P0, b0, tuple(f0 + f1))]
        return [], [(P, body, tuple(filt))]
    if isinstance(it, ast.BinOp) and isinstance(it.op, ast.Add):
        a, b = fold_parts(canon, it.left, fr, env, d + 1), fold_parts(canon, it.right, fr, env, d + 1)
        if a is None or b is None:
            return None
        return a[0] + b[0], a[1] + b[1]
    if isinstance(it, ast.Call) and isinstance(it.func, ast.Name) and it.func.id in ('list', 'tuple', 'sorted') \
            and len(it.args) == 1:
        return fold_parts(canon, it.args[0], fr, env, d + 1)
    return None


_TWINS = {}


def _prov_twin(canon):
    t = _TWINS.get(id(canon))
    if t is None:
        t = _TWINS[id(canon)] = ProvCanon(canon.repo)
    return t


def distribute_const(a):
    """max(x, y) + c  ->  max(x + c, y + c)  (single min/max term, coefficient 1)"""
    return push_in(a)


def affine_cmp(canon, l, op, r, fr, env=None):
    """Normalise `l op r` to ('<expr> <= 0' | '<expr> < 0', polarity).
    Returns None for non-order operators."""
    if op not in ('<', '<=', '>', '>='):
        return None
    a = affine(canon, l, fr, env) - affine(canon, r, fr, env)   # a op 0
    if op in ('>', '>='):
        a = a.scale(-1)
        op = {'>': '<', '>=': '<='}[op]
    # a < 0  or a <= 0.   Canonical: make '<=' the positive form:
    # a < 0  ==  not (-a <= 0)
    if op == '<':
        return ('%r <= 0' % (a.scale(-1),), False)
    return ('%r <= 0' % (a,), True)


def _aff(x):
    if isinstance(x, Affine):
        return x
    if isinstance(x, (int, float, Fraction)):
        return Affine({}, x)
    return Affine({x: 1})


def lit_le(a, b):
    """canonical literal for a <= b (a, b: term strings, numbers or Affine)"""
    return Lit('%r <= 0' % (_aff(a) - _aff(b),), True)


def lit_lt(a, b):
    """canonical literal for a < b"""
    return Lit('%r <= 0' % (_aff(b) - _aff(a),), False)


def path_effects(canon, events):
    """flat list of the effects along one path (path-sensitive local aliases/constants)"""
    return [ef for _e, efs in effects_along(canon, events) for ef in efs]
