#!/usr/bin/env python3
"""ad-hoc mutation helper: tools_mut.py <prop> <file> <old> <new> [<file> <old> <new>...]
copies /repo/topsim to a temp dir, applies textual replacements (each must match
exactly once), byte-compiles, runs ./check <prop> --repo <tmp>, removes the dir."""
import shutil, subprocess, sys, tempfile, os, py_compile
prop = sys.argv[1]
args = sys.argv[2:]
tmp = tempfile.mkdtemp(prefix='mut_')
try:
    shutil.copytree('/repo/topsim', tmp + '/topsim', ignore=shutil.ignore_patterns('__pycache__'))
    for i in range(0, len(args), 3):
        f, old, new = args[i:i+3]
        p = os.path.join(tmp, f)
        s = open(p).read()
        if s.count(old) != 1:
            print('MUT-ERROR: %r matches %d times in %s' % (old, s.count(old), f)); sys.exit(3)
        open(p, 'w').write(s.replace(old, new))
        compile(open(p).read(), p, "exec")
    r = subprocess.run(['/verif/check', prop, '--repo', tmp], capture_output=True, text=True)
    out = r.stdout.replace(tmp + '/', '')
    lines = [l for l in out.splitlines() if l.startswith(('VIOLATION', '  rule', 'ANALYSIS', 'KNOWN'))]
    print('exit', r.returncode, '|', ' || '.join(l.strip()[:230] for l in lines[:6]) or out.strip().splitlines()[-1])
    if r.stderr.strip(): print(r.stderr[-600:])
finally:
    shutil.rmtree(tmp)
